"""Check runner: regenerate the encoding from /repo, explore, replay, confirm, report.  See DESIGN.md §3.1, §8."""
import argparse
import glob
import hashlib
import importlib
import json
import os
import subprocess
import sys
import time

HERE = os.path.dirname(os.path.abspath(__file__))
sys.path.insert(0, HERE)
BUILD = os.environ.get('VERIF_BUILD', os.path.join(HERE, '.build'))
REPO = os.environ.get('PURL_REPO', '/repo')

FEATURE_SETS = {
    'default': ([], {'default', 'package-type', 'smartstring'}),
    'nodefault': (['--no-default-features'], set()),
    'pt': (['--no-default-features', '--features', 'package-type'], {'package-type'}),
    'serde': (['--features', 'serde'], {'default', 'package-type', 'smartstring', 'serde'}),
}
NATIVE_FEATURES = {'default': 'pt,ss', 'nodefault': '', 'pt': 'pt', 'serde': 'pt,ss,sd'}
ENV = dict(os.environ, CARGO_NET_OFFLINE='true')


def sh(cmd, **kw):
    return subprocess.run(cmd, stdout=subprocess.PIPE, stderr=subprocess.PIPE, env=ENV, **kw)


def source_digest():
    h = hashlib.sha256()
    for p in sorted(glob.glob(os.path.join(REPO, 'purl', '**', '*'), recursive=True)):
        if os.path.isfile(p) and '/target/' not in p:
            h.update(p.encode())
            h.update(open(p, 'rb').read())
    return h.hexdigest()[:16]


def dump_mir(fset, digest):
    """print the crate's MIR for one feature set from the current working tree (cached per source digest)"""
    os.makedirs(BUILD, exist_ok=True)
    out = os.path.join(BUILD, 'mir-%s-%s.txt' % (fset, digest))
    if os.path.exists(out) and os.path.getsize(out) > 1000:
        return out
    for old in glob.glob(os.path.join(BUILD, 'mir-%s-*.txt' % fset)):
        os.remove(old)
    flags, _ = FEATURE_SETS[fset]
    nonce = 'verif_nonce_%s_%d' % (digest, int(time.time()))
    cmd = ['cargo', '+nightly', 'rustc', '--offline', '--manifest-path', os.path.join(REPO, 'purl', 'Cargo.toml'), '--lib'] + flags + \
          ['--target-dir', os.path.join(BUILD, 'mirbuild-' + fset), '--', '-Zunpretty=mir', '-C', 'debug-assertions=on',
           '-C', 'overflow-checks=on', '--cfg', nonce, '-A', 'warnings']
    p = sh(cmd)
    if p.returncode != 0 or len(p.stdout) < 1000:
        sys.stderr.write(p.stderr.decode()[-3000:])
        raise SystemExit('INCONCLUSIVE: cannot print MIR for feature set %s (does /repo still compile?)' % fset)
    open(out, 'wb').write(p.stdout)
    return out


def build_native(fset='default', release=False):
    feats = NATIVE_FEATURES[fset]
    tdir = os.path.join(BUILD, 'native-' + fset)
    manifest = os.path.join(HERE, 'native', 'Cargo.toml')
    if REPO != '/repo':
        # analysing a copy of the repository: build the oracle against that copy
        import shutil
        src = os.path.join(BUILD, 'native-src')
        if os.path.exists(src):
            shutil.rmtree(src)
        shutil.copytree(os.path.join(HERE, 'native'), src)
        mt = open(os.path.join(src, 'Cargo.toml')).read().replace('path = "/repo/purl"', 'path = "%s/purl"' % REPO)
        open(os.path.join(src, 'Cargo.toml'), 'w').write(mt)
        manifest = os.path.join(src, 'Cargo.toml')
    cmd = ['cargo', 'build', '--offline', '--manifest-path', manifest,
           '--target-dir', tdir, '--no-default-features']
    if feats:
        cmd += ['--features', feats]
    if release:
        cmd.append('--release')
    p = sh(cmd)
    if p.returncode != 0:
        sys.stderr.write(p.stderr.decode()[-3000:])
        raise SystemExit('INCONCLUSIVE: native oracle does not build for feature set %s' % fset)
    return os.path.join(tdir, 'release' if release else 'debug', 'purl_oracle')


def unicode_tables(native_bin, digest):
    out = os.path.join(BUILD, 'unicode.json')
    stamp = os.path.join(BUILD, 'unicode.stamp')
    want = '%s %d' % (native_bin, int(os.path.getmtime(native_bin)))
    if os.path.exists(out) and os.path.exists(stamp) and open(stamp).read() == want:
        return out
    p = subprocess.run([native_bin], input=b'{"op":"tables"}\n', stdout=subprocess.PIPE, timeout=300)
    d = json.loads(p.stdout)
    assert len(d['uppercase']) > 1000 and len(d['lowercase']) > 1000
    open(out, 'wb').write(p.stdout)
    open(stamp, 'w').write(want)
    return out


def load_known():
    p = os.path.join(HERE, 'known_findings.json')
    if not os.path.exists(p):
        return []
    return json.load(open(p)).get('findings', [])


def main(argv=None):
    ap = argparse.ArgumentParser()
    ap.add_argument('prop')
    ap.add_argument('--tier', default=os.environ.get('VERIF_TIER', 'quick'))
    ap.add_argument('--workers', type=int, default=int(os.environ.get('VERIF_WORKERS', '16')))
    ap.add_argument('--only', default=None, help='substring filter on query names (debugging)')
    ap.add_argument('--no-evidence', action='store_true')
    ap.add_argument('--cap', type=int, default=None, help='time cap in seconds (debugging)')
    ap.add_argument('path', nargs='?')
    args = ap.parse_args(argv)
    if args.prop == 'replay':
        return replay(args.path)
    if args.prop == 'setup':
        return setup()
    if args.prop == 'replay':
        return replay(argv[1] if argv else sys.argv[2])
    seed = int(os.environ.get('VERIF_SEED', '0') or 0)
    tier = args.tier if args.tier in ('quick', 'thorough') else 'quick'
    return run_check(args.prop.upper(), tier, seed, args.workers, args.only, not (args.no_evidence or args.only), args.cap)


def replay(path):
    """re-run a stored case on the real compiled crate (dev and release profile) and print what it does"""
    case = json.load(open(path))
    pid = case['property']
    mod = importlib.import_module('props.' + pid.lower())
    from mirsym import explore as E
    nset = getattr(mod, 'NATIVE', 'default')
    print('property %s, query %s' % (pid, case.get('query')))
    print('recorded: %s: %s' % (case.get('label'), case.get('what')))
    rq = case['request']
    if 's' in rq:
        print('input string: %r' % bytes.fromhex(rq['s']).decode('utf8', 'replace'))
    print('request: %s' % json.dumps(rq))
    bad = False
    for rel in (False, True):
        resp = E.Native(build_native(nset, release=rel)).run([rq])[0]
        verdict = mod.confirm({'case': rq, 'label': case.get('label', '')}, resp) if not hasattr(mod, 'confirm_multi') else None
        print('%s build answers: %s' % ('release' if rel else 'dev', json.dumps(resp)[:1500]))
        print('  property verdict on this answer: %s' % (verdict or 'holds'))
        bad = bad or bool(verdict)
    return 1 if bad else 0


def setup():
    d = source_digest()
    for f in FEATURE_SETS:
        dump_mir(f, d)
    nb = build_native('default')
    build_native('default', release=True)
    for s in ('nodefault', 'pt', 'serde'):
        build_native(s)
    build_native('serde', release=True)
    unicode_tables(nb, d)
    import z3
    print('setup ok: z3', z3.get_version_string())
    return 0


def printable(s):
    """report lines stay one printable line each, whatever bytes a counterexample contains"""
    return ''.join(ch if ch.isprintable() else '\\x%02x' % ord(ch) if ord(ch) < 256 else '\\u%04x' % ord(ch) for ch in s)


def run_check(pid, tier, seed, workers, only, write_evidence, cap=None):
    t0 = time.time()
    mod = importlib.import_module('props.' + pid.lower())
    digest = source_digest()
    from mirsym import explore as E
    from mirsym.interp import load_program
    from mirsym import models  # noqa: registers models
    progs = {}
    mir_files = {}
    for fset in mod.PROGS:
        mf = dump_mir(fset, digest)
        mir_files[fset] = mf
        progs[fset] = load_program(mf, os.path.join(REPO, 'purl', 'src'), FEATURE_SETS[fset][1])
    nset = getattr(mod, 'NATIVE', 'default')
    native_bin = build_native(nset)
    native_rel = build_native(nset, release=True)
    os.environ['MIRSYM_UNICODE'] = unicode_tables(native_bin if nset == 'default' else build_native('default'), digest)
    native = E.Native(native_bin)
    native_r = E.Native(native_rel)
    extra_natives = {s: E.Native(build_native(s)) for s in getattr(mod, 'NATIVE_SETS', [])}
    # translator validation on the repository's own test inputs (concrete mode vs. compiled crate)
    from mirsym import corpus
    inconclusive = []
    corpus_n = 0
    if 'default' in progs or 'serde' in progs:
        try:
            corpus_n, bad = corpus.validate(progs.get('default') or progs['serde'], E.Native(build_native('default')), REPO)
        except Exception as e:       # an engine failure is inconclusive, never a verdict
            import traceback
            corpus_n, bad = 0, ['engine error on the repository\'s own test inputs: ' + traceback.format_exc()[-400:]]
        for b in bad[:3]:
            inconclusive.append('ENGINE-MISMATCH on the repository\'s own test input: ' + b)
    queries = mod.queries(tier)
    if only:
        queries = [q for q in queries if only in q.name]
    caps = getattr(mod, 'TIME_CAP', {'quick': 900, 'thorough': 7200})
    cq = int(os.environ.get('VERIF_CVC5', '2' if tier == 'thorough' else '0'))
    results = E.explore(progs, queries, workers=workers, seed=seed, budget=400, replay_cap=(30 if tier == 'quick' else 10 ** 9), cross_quota=cq,
                        time_cap=cap or caps[tier])
    # ---- engine health
    for r in results:
        if r['errors']:
            inconclusive.append('engine error in %s: %s' % (r['name'], r['errors'][0][-600:]))
        if r['unsupported']:
            inconclusive.append('unsupported in %s: %s' % (r['name'], r['unsupported'][0]))
        if not r['complete']:
            inconclusive.append('time cap reached before %s was fully explored' % r['name'])
        for pr in r['cross_problems'][:2]:
            inconclusive.append('second solver disagrees / fails on a leaf obligation of %s: %s' % (r['name'], pr))
    # ---- witness replay: the engine's view of each path vs. the compiled crate
    replays = [(r['name'], rq, ex) for r in results for rq, ex in r['replays']]
    resp = native.run([rq for _, rq, _ in replays])
    validated, mismatches = 0, []
    for (qn, rq, ex), got in zip(replays, resp):
        d = E.subset_match(ex, got)
        if d:
            mismatches.append({'query': qn, 'request': rq, 'diff': d[:4]})
        else:
            validated += 1
    for sname, nat in extra_natives.items():
        # the same witnesses on the oracle built with another feature set
        resp2 = nat.run([rq for _, rq, _ in replays])
        for (qn, rq, ex), got in zip(replays, resp2):
            if 'unsupported' in got:
                continue        # this API does not exist under that feature set
            d = E.subset_match(ex, got)
            if d:
                mismatches.append({'query': qn + ' [features ' + sname + ']', 'request': rq, 'diff': d[:4]})
            else:
                validated += 1
    for mm in mismatches[:5]:
        inconclusive.append('ENGINE-MISMATCH %s: %s (request %s)' % (mm['query'], '; '.join(mm['diff']), json.dumps(mm['request'])))
    # ---- counterexamples: confirm on the real crate (dev and release), classify
    viols = [(r['name'], v) for r in results for v in r['violations']]
    seen, confirmed, unconfirmed = set(), [], []
    reqs = [mod.native_request(v) for _, v in viols]
    def run_tolerant(nat, rqs):
        """answers of the oracle; a request on which the oracle process itself dies (abort, e.g. an allocation of 2^64 bytes after a
        wrapped subtraction in the release profile) is answered {'panic': 'process aborted'} and the rest is asked again"""
        try:
            return nat.run(rqs)
        except Exception:
            out = []
            for rq in rqs:
                try:
                    out.append(nat.run([rq])[0])
                except Exception:
                    out.append({'panic': 'the oracle process aborted on this request'})
            return out
    rd = run_tolerant(native, reqs)
    rr = run_tolerant(native_r, reqs)
    for (qn, v), rq, a, b in zip(viols, reqs, rd, rr):
        key = json.dumps(rq, sort_keys=True)
        if key in seen:
            continue
        seen.add(key)
        try:
            if extra_natives:
                others = {s: nat.run([rq])[0] for s, nat in extra_natives.items()}
                ca, cb = mod.confirm_multi(v, a, others), None
            else:
                ca, cb = mod.confirm(v, a), mod.confirm(v, b)
        except Exception as e:      # a broken confirmation step is inconclusive, never a verdict
            inconclusive.append('confirmation of a counterexample failed: %r on request %s' % (e, json.dumps(rq)[:200]))
            continue
        if ca or cb:
            confirmed.append({'query': qn, 'label': v['label'], 'request': rq, 'what': ca or cb,
                              'dev': bool(ca), 'release': bool(cb), 'role': mod.finding_role(v, a)})
        else:
            unconfirmed.append({'query': qn, 'label': v['label'], 'request': rq, 'native': a})
    for u in unconfirmed[:5]:
        inconclusive.append('counterexample does not reproduce natively (encoder bug?): %s / %s request %s' %
                            (u['query'], u['label'], json.dumps(u['request'])))
    # ---- vacuity
    for p in ([] if only else mod.vacuity(results)):
        inconclusive.append('vacuous: ' + p)
    # ---- known findings
    known = [k for k in load_known() if k.get('property') == pid and k.get('status') == 'known']
    new, listed = [], {}
    for c in confirmed:
        hit = [k for k in known if k.get('role') == c['role']]
        if hit:
            listed.setdefault(hit[0]['role'], (hit[0], c))
        else:
            new.append(c)
    os.makedirs(os.path.join(HERE, 'cases'), exist_ok=True)
    exit_code = 0
    for role, (k, c) in listed.items():
        print('KNOWN-FINDING: property=%s %s (e.g. %s)' % (pid, k.get('what', role), c['what']))
    for i, c in enumerate(new):
        h = hashlib.sha256(json.dumps(c['request'], sort_keys=True).encode()).hexdigest()[:12]
        path = os.path.join(HERE, 'cases', '%s-%s.json' % (pid, h))
        if i < 40:
            json.dump({'property': pid, 'request': c['request'], 'what': c['what'], 'label': c['label'], 'query': c['query']},
                      open(path, 'w'), indent=1)
        if i < 5:
            print('VIOLATION property=%s replay=%s' % (pid, path))
            print(printable('  %s: %s' % (c['label'], c['what'])))
        exit_code = 1
    if len(new) > 5:
        print('  (+%d more confirmed violations)' % (len(new) - 5))
    if inconclusive and exit_code == 0:
        exit_code = 2
    for msg in inconclusive[:12]:
        print(printable('INCONCLUSIVE: ' + msg))
    wall = time.time() - t0
    paths = sum(r['paths'] for r in results)
    print('%s %s: %d queries, %d paths, %d leaf obligations, %d solver checks (%.1fs solver, %.1fs cpu), %d witnesses replayed '
          'natively, %d confirmed violations (%d new), wall %.1fs -> exit %d' %
          (pid, tier, len(results), paths, sum(r['checks'] for r in results), sum(r['solver_checks'] for r in results),
           sum(r['solver_s'] for r in results), sum(r['cpu_s'] for r in results), validated, len(confirmed), len(new), wall, exit_code))
    if os.environ.get('VERIF_VERBOSE'):
        for r in sorted(results, key=lambda r: -r['cpu_s'])[:40]:
            print('  %-50s paths=%-6d cpu=%6.1fs solver=%6.1fs checks=%-6d %s' % (r['name'], r['paths'], r['cpu_s'], r['solver_s'], r['solver_checks'], dict(list(r['outcomes'].items())[:4])))
    if write_evidence:
        write_ev(pid, tier, seed, mod, results, validated, mismatches, confirmed, new, inconclusive, wall, mir_files, digest, replays, corpus_n)
    return exit_code


def write_ev(pid, tier, seed, mod, results, validated, mismatches, confirmed, new, inconclusive, wall, mir_files, digest, replays, corpus_n):
    fns = sorted(set().union(*[r['fns'] for r in results])) if results else []
    mods = sorted(set().union(*[r['models'] for r in results])) if results else []
    outcomes = {}
    for r in results:
        for k, v in r['outcomes'].items():
            outcomes[k] = outcomes.get(k, 0) + v
    samples = []
    for qn, rq, ex in replays[:: max(1, len(replays) // 12)][:12]:
        s = dict(query=qn, request=rq)
        if 's' in rq:
            try:
                s['input'] = bytes.fromhex(rq['s']).decode('utf8', 'replace')
            except Exception:
                pass
        s['engine_expected'] = ex
        samples.append(s)
    ev = {
        'property_id': pid, 'tier': tier, 'seed': seed, 'level': 'model_checking', 'wall_s': round(wall, 2),
        'violations': len(new),
        'coverage': {
            'states': sum(r['paths'] for r in results),
            'transitions': sum(r['decisions'] for r in results),
            'traces_validated_against_impl': validated,
            'samples': samples or [{'note': 'no replayable leaf'}],
            'exhaustive': False,
            'explanation': mod.LEVEL_TEXT,
            'technique': 'symbolic execution of rustc MIR (regenerated from /repo) with z3 deciding branch feasibility and leaf assertions',
            'source_digest': digest,
            'mir_dumps': {k: os.path.basename(v) for k, v in mir_files.items()},
            'queries': [{'name': r['name'], 'bound': r['bound'], 'paths': r['paths'], 'outcomes': r['outcomes'],
                         'leaf_obligations': r['checks'], 'solver_checks': r['solver_checks'],
                         'solver_s': round(r['solver_s'], 3), 'complete': r['complete']} for r in results],
            'leaves_by_outcome': outcomes,
            'leaf_obligations_discharged': sum(r['checks'] for r in results),
            'solver_checks': sum(r['solver_checks'] for r in results),
            'solver_seconds': round(sum(r['solver_s'] for r in results), 2),
            'leaf_obligations_rechecked_with_cvc5': sum(r['cross_n'] for r in results),
            'cvc5_seconds': round(sum(r['cross_s'] for r in results), 2),
            'cvc5_gave_up_on': sum(r['cross_timeouts'] for r in results),
            'mir_statements_executed': sum(r['steps'] for r in results),
            'functions_interpreted': fns,
            'models_used': mods,
            'engine_mismatches': mismatches[:5],
            'repository_test_inputs_through_engine_and_crate': corpus_n,
            'confirmed_violations': confirmed[:10],
            'inconclusive': inconclusive[:10],
            'outside_the_claim': mod.OUTSIDE,
        },
        'assumptions': [
            'rustc nightly MIR printer is faithful and agrees with the stable compiler that builds the library',
            'API-level models of std / percent-encoding / hex / phf / unicase / smartstring (listed under models_used); sampled by native witness replay',
            'z3 is sound for QF_BV',
        ] + getattr(mod, 'ASSUMPTIONS', []),
    }
    os.makedirs(os.path.join(HERE, 'evidence'), exist_ok=True)
    json.dump(ev, open(os.path.join(HERE, 'evidence', pid + '.json'), 'w'), indent=1, default=str)


if __name__ == '__main__':
    try:
        rc = main()
    except SystemExit as e:
        if isinstance(e.code, str):
            print(e.code)
            rc = 2
        else:
            rc = e.code
    except Exception:       # an internal error is never a verdict
        import traceback
        print('INCONCLUSIVE: internal error of the checker: ' + traceback.format_exc()[-800:])
        rc = 2
    sys.exit(rc)
