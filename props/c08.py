"""C08 -- package-type rules: pypi and nuget names, maven namespace, others untouched."""
from .std import *
from . import ref as R_
from .cksum import lower_chars
from mirsym.models import chars_of, char_lower_seq, encode_char, zx

ID = 'C08'
PROGS = ['default']
NAMES = ['cargo', 'gem', 'golang', 'maven', 'npm', 'nuget', 'pypi']
DASH = tt(b'-_.')


def rule(L, ty, name):
    """the documented name rule of a type, on (symbolic) UTF-8 bytes -> bytes"""
    I = L.I
    if ty == 'nuget':
        out = []
        for ch in chars_of(I, name):
            for l in char_lower_seq(I, ch):
                out.extend(encode_char(I, l))
        return out
    if ty == 'pypi':
        out, prev = [], False
        for ch in chars_of(I, name):
            is_sep = (ch in b'-_.') if isinstance(ch, int) else I.ctx.decide(z3.Or([zx(ch) == c for c in b'-_.']))
            if is_sep:
                if not prev:
                    out.append(0x2D)
                prev = True
            else:
                prev = False
                for l in char_lower_seq(I, ch):
                    out.extend(encode_char(I, l))
        return out
    return list(name)


def same(L, what, a, b):
    if (a is None) != (b is None):
        L.fail('%s differs between the typed and the type-agnostic PURL' % what)
        return
    if a is None:
        return
    if len(a) != len(b):
        L.fail('%s differs in length between the typed and the type-agnostic PURL' % what)
        return
    L.check('%s identical to the type-agnostic PURL' % what, bytes_eq_term(a, b))


def h_parse(L, parts):
    I = L.I
    s, _ = template_bytes(L, parts)
    L.assume_utf8(s)
    req = {'op': 'both', 's': SymStr(s)}
    L.expect_native(req, {})
    try:
        rS = from_str(I, 'String', s)
        rP = from_str(I, 'Purl', s)
    except Panic as e:
        L.fail('panic: %s' % e.msg)
        return 'panic'
    if rS.variant == 'Err':
        L.expect_native(req, {'generic': {'err': err_name(rS.fields[0])}})
        return 'generic-rejected'
    pS = rS.fields[0]
    aS = accessors(I, 'String', pS)
    exp = {'generic': {'ok': obs_expect(aS)}}
    ty = None
    for nm in NAMES:
        if R_.eq(L, aS['type'], list(nm.encode())):
            ty = nm
    if rP.variant == 'Err':
        got = err_name(rP.fields[0])
        exp['typed'] = {'err': got}
        L.expect_native(req, exp)
        # C08 only says "refused"; which error is C05's business
        if ty is None:
            return 'unknown-type'
        if ty == 'maven' and aS['ns'] is None:
            return 'maven-no-namespace'
        L.fail('typed parser refuses (%s) a string of type %s that the type-agnostic parser accepts' % (got, ty))
        return 'typed-rejected'
    pP = rP.fields[0]
    aP = accessors(I, 'Purl', pP)
    exp['typed'] = {'ok': obs_expect(aP)}
    L.expect_native(req, exp)
    if ty is None:
        L.fail('typed parser accepts an unknown type')
        return 'typed'
    if ty == 'maven' and aS['ns'] is None:
        L.fail('maven PURL without namespace accepted')
        return 'typed'
    same(L, 'type', aP['type'], list(ty.encode()))
    same(L, 'namespace', aP['ns'], aS['ns'])
    same(L, 'version', aP['ver'], aS['ver'])
    same(L, 'subpath', aP['sub'], aS['sub'])
    if len(aP['quals']) != len(aS['quals']):
        L.fail('qualifiers differ between the typed and the type-agnostic PURL')
    else:
        for (k1, v1), (k2, v2) in zip(aP['quals'], aS['quals']):
            same(L, 'qualifier key', k1, k2)
            same(L, 'qualifier value', v1, v2)
    want = rule(L, ty, aS['name'])
    if len(want) != len(aP['name']):
        L.fail('%s name does not follow the documented rule (length differs)' % ty)
    else:
        L.check('%s name == documented rule applied to the type-agnostic name' % ty, bytes_eq_term(aP['name'], want))
    return 'typed:' + ty


def h_build(L, ty, n, with_ns, via='ctor'):
    I = L.I
    name = L.sym_bytes('h', n)
    L.assume_utf8(name)
    steps = [('with_namespace', list(b'ns'))] if with_ns else []
    req = {'op': 'build_typed', 'T': 'Purl', 'type': SymStr(list(ty.encode())), 'name': SymStr(name), 'via': via,
           'steps': [[m] + [SymStr(a) for a in args] for m, *args in steps]}
    L.expect_native(req, {})
    try:
        if via == 'new':
            r = p_new(I, 'Purl', mk_type(I, 'Purl', list(ty.encode())), name)
        else:
            b = b_new(I, 'Purl', mk_type(I, 'Purl', list(ty.encode())), name, via)
            for m, *args in steps:
                b = b_call(I, 'Purl', b, m, *args)
            r = b_build(I, 'Purl', b)
    except Panic as e:
        L.fail('panic: %s' % e.msg)
        return 'panic'
    if r.variant == 'Err':
        got = err_name(r.fields[0])
        L.expect_native(req, {'err': got})
        if n == 0:
            return 'rejected'
        if ty == 'maven' and not with_ns:
            return 'maven-no-namespace'
        L.fail('builder refuses (%s) a non-empty %s name' % (got, ty))
        return 'rejected'
    if ty == 'maven' and not with_ns:
        L.fail('maven PURL without namespace built')
        return 'built'
    if n == 0:
        L.fail('PURL with an empty name built')
        return 'built'
    p = r.fields[0]
    acc = accessors(I, 'Purl', p)
    L.expect_native(req, {'ok': obs_expect(acc)})
    want = rule(L, ty, name)
    if len(want) != len(acc['name']):
        L.fail('%s name does not follow the documented rule (length differs)' % ty)
    else:
        L.check('%s name == documented rule applied to the given name' % ty, bytes_eq_term(acc['name'], want))
    return 'built'


def h_build_ns(L, ty, hole, meth='with_namespace'):
    """a free namespace / version / subpath through the typed and the type-agnostic builder: same value reported; maven refused
    exactly when no namespace is present"""
    I = L.I
    ns = L.sym_bytes('h', hole[2])
    if len(hole) > 3:
        L.restrict(ns, hole[3])
    L.assume_utf8(ns)
    fld = {'with_namespace': 'ns', 'with_version': 'ver', 'with_subpath': 'sub'}[meth]
    pre = [] if meth == 'with_namespace' else [('with_namespace', list(b'g'))]
    steps = pre + [(meth, ns)]
    sreq = [[m, SymStr(a)] for m, a in steps]
    reqs = [{'op': 'build_typed', 'T': 'Purl', 'type': SymStr(list(ty.encode())), 'name': SymStr(list(b'n')), 'steps': sreq},
            {'op': 'build', 'T': 'String', 'type': SymStr(list(ty.encode())), 'name': SymStr(list(b'n')), 'steps': sreq}]
    req = {'op': 'multi', 'reqs': reqs}
    L.expect_native(req, {})
    outs = []
    try:
        for T in ('Purl', 'String'):
            b = b_new(I, T, mk_type(I, T, list(ty.encode())), list(b'n'))
            for m, a in steps:
                b = b_call(I, T, b, m, a)
            r = b_build(I, T, b)
            outs.append(r)
    except Panic as e:
        L.fail('panic: %s' % e.msg)
        return 'panic'
    rP, rS = outs
    if rS.variant == 'Err':
        L.fail('the type-agnostic builder refuses a %s' % meth[5:])
        return 'rejected'
    present = meth != 'with_namespace' or any(not beq(I, x, 0x2F) for x in ns)          # a namespace with at least one non-empty segment
    if rP.variant == 'Err':
        L.expect_native(req, {'res': [{'err': err_name(rP.fields[0])}, {}]})
        if ty == 'maven' and not present:
            return 'maven-no-namespace'
        L.fail('typed builder refuses (%s) a %s PURL whose namespace is present' % (err_name(rP.fields[0]), ty))
        return 'rejected'
    if ty == 'maven' and meth == 'with_namespace' and len(ns) == 0:
        L.fail('maven PURL without namespace built')
        return 'built'
    aP, aS = accessors(I, 'Purl', rP.fields[0]), accessors(I, 'String', rS.fields[0])
    L.expect_native(req, {'res': [{'ok': obs_expect(aP)}, {'ok': obs_expect(aS)}]})
    same(L, {'ns': 'namespace', 'ver': 'version', 'sub': 'subpath'}[fld], aP[fld], aS[fld])
    return 'built'


def queries(tier):
    th = tier == 'thorough'
    qs = []

    def addp(parts):
        qs.append(Query('parse %s' % show_template(parts), h_parse, {'parts': parts}, bound='input = %s, every valid-UTF-8 byte string in the hole, through both parsers' % show_template(parts)))
    for ty in NAMES:
        deep = ty in ('nuget', 'pypi')
        for n in lens((5 if th else 4) if deep else (4 if th else 3), 1):
            addp(['pkg:%s/ns/' % ty, ('hole', 'h', n)])
        for n in lens(3 if th else 2, 1):
            addp(['pkg:%s/' % ty, ('hole', 'h', n)])
            addp(['pkg:%s/ns/' % ty, ('hole', 'h', n), '@1?k=v#s'])
            addp(['pkg:%s/' % ty, ('hole', 'h', n), '/n@1?k=v#s'])
        up = ty.upper()
        addp(['pkg:%s/ns/' % up, ('hole', 'h', 2)])
        # the other components of every type: version, qualifier value and subpath are exactly the type-agnostic parser's
        addp(['pkg:%s/ns/n@' % ty, ('hole', 'h', 3 if th else 2)])
        addp(['pkg:%s/ns/n@1?k=' % ty, ('hole', 'h', 2), '#', ('hole', 'g', 2)])
        addp(['pkg:%s/' % ty, ('hole', 'h', 2), '/n@', ('hole', 'g', 2)])
        for n in lens(4 if th else 3, 1):
            qs.append(Query('build %s name=⟦%d⟧ +ns' % (ty, n), h_build, {'ty': ty, 'n': n, 'with_ns': True}, bound='Purl::builder(%s, every valid-UTF-8 string of %d bytes).with_namespace("ns").build()' % (ty, n)))
        for n in lens(2):
            qs.append(Query('build %s name=⟦%d⟧' % (ty, n), h_build, {'ty': ty, 'n': n, 'with_ns': False}, bound='Purl::builder(%s, every valid-UTF-8 string of %d bytes).build()' % (ty, n)))
        for n in lens(3, 2):
            qs.append(Query('Purl::new %s name=⟦%d⟧' % (ty, n), h_build, {'ty': ty, 'n': n, 'with_ns': False, 'via': 'new'}, bound='Purl::new(%s, every valid-UTF-8 string of %d bytes)' % (ty, n)))
        qs.append(Query('Purl::builder %s name=⟦2⟧ +ns' % ty, h_build, {'ty': ty, 'n': 2, 'with_ns': True, 'via': 'builder'}, bound='GenericPurl::builder(%s, every valid-UTF-8 string of 2 bytes).with_namespace("ns").build()' % ty))
    for n in lens(5 if th else 4, 1):
        addp(['pkg:', ('hole', 'h', n), '/ns/n'])
    addp(['pkg:', ('hole', 'h', 3), '/ns/n@1?k=v#s'])
    # free namespaces through both builders (values the parser cannot produce included)
    for ty in NAMES:
        for hole in [('hole', 'h', n) for n in lens(3 if th else 2)] + [('hole', 'h', n, b'/a') for n in ((4, 5, 6) if th else (4, 5))]:
            qs.append(Query('build %s namespace=%s typed|String' % (ty, hole_text(hole)), h_build_ns, {'ty': ty, 'hole': hole},
                            bound='Purl::builder(%s, "n").with_namespace(%s) next to the type-agnostic builder' % (ty, hole_text(hole))))
        for meth in ('with_version', 'with_subpath'):
            hole = ('hole', 'h', 3 if th else 2)
            qs.append(Query('build %s %s=%s typed|String' % (ty, meth[5:], hole_text(hole)), h_build_ns, {'ty': ty, 'hole': hole, 'meth': meth},
                            bound='Purl::builder(%s, "n").with_namespace("g").%s(%s) next to the type-agnostic builder' % (ty, meth, hole_text(hole))))
    # type strings next to every known name: one / two free bytes appended, prepended, inserted or substituted
    for ty in NAMES:
        for nm in (ty, ty.upper()) if th else (ty,):
            for k in (1, 2):
                addp(['pkg:' + nm, ('hole', 'h', k), '/ns/n'])
            addp(['pkg:', ('hole', 'h', 1), nm, '/ns/n'])
            for i in range(len(nm)):
                addp(['pkg:' + nm[:i], ('hole', 'h', 1), nm[i + 1:], '/ns/n'])
                if i and (th or i == len(nm) // 2):
                    addp(['pkg:' + nm[:i], ('hole', 'h', 1), nm[i:], '/ns/n'])
    return qs


def native_request(v):
    return v['case']


def confirm(v, resp):
    if 'panic' in resp:
        return 'panicked: %s' % resp['panic']
    req = v['case']
    if req['op'] == 'multi':
        rP, rS = resp['res']
        r0 = req['reqs'][0]
        ty = bytes.fromhex(r0['type']).decode()
        meth = r0['steps'][-1][0]
        fld = {'with_namespace': 'ns', 'with_version': 'ver', 'with_subpath': 'sub'}[meth]
        ns = bytes.fromhex(r0['steps'][-1][1])
        if 'panic' in rP or 'panic' in rS:
            return 'panicked'
        if 'ok' not in rS:
            return 'the type-agnostic builder refuses the namespace %r' % ns
        present = meth != 'with_namespace' or ns.strip(b'/') != b''
        if 'ok' not in rP:
            if ty == 'maven' and not present:
                return None
            return 'the typed builder refuses (%s) a %s PURL with the namespace %r' % (rP.get('err'), ty, ns)
        if ty == 'maven' and meth == 'with_namespace' and ns == b'':
            return 'maven PURL without namespace built'
        if rP['ok'][fld] != rS['ok'][fld]:
            return '%s %r is reported as %r by the typed and %r by the type-agnostic PURL' % (meth[5:], ns, rP['ok'][fld] and hx(rP['ok'][fld]), rS['ok'][fld] and hx(rS['ok'][fld]))
        return None
    if req['op'] == 'build_typed':
        ty = bytes.fromhex(req['type']).decode()
        name = bytes.fromhex(req['name'])
        has_ns = any(s[0] == 'with_namespace' for s in req['steps'])
        if 'err' in resp:
            if ty == 'maven' and not has_ns:
                return None
            return None if name == b'' else 'builder refuses %r for %s with %s' % (name, ty, resp['err'])
        if ty == 'maven' and not has_ns:
            return 'maven PURL without namespace built'
        want = hx(resp['expect_lower']) if ty == 'nuget' else hx(resp['expect_pypi']) if ty == 'pypi' else name
        got = hx(resp['ok']['name'])
        return None if got == want else '%s name %r comes out as %r, the documented rule gives %r' % (ty, name.decode('utf8', 'replace'), got.decode('utf8', 'replace'), want.decode('utf8', 'replace'))
    g, t = resp['generic'], resp['typed']
    if 'ok' not in g:
        return None
    ty = hx(g['ok']['type']).decode()
    if ty not in NAMES:
        return None if 'err' in t else 'unknown type %s is accepted by the typed parser' % ty
    if ty == 'maven' and g['ok']['ns'] is None:
        return None if 'err' in t else 'maven without namespace is accepted by the typed parser'
    if 'ok' not in t:
        return 'typed parser refuses (%s) what the type-agnostic parser accepts' % t.get('err')
    for f in ('ns', 'ver', 'sub', 'quals'):
        if t['ok'][f] != g['ok'][f]:
            return '%s differs between typed and type-agnostic PURL' % f
    want = hx(resp['expect_lower']) if ty == 'nuget' else hx(resp['expect_pypi']) if ty == 'pypi' else hx(g['ok']['name'])
    got = hx(t['ok']['name'])
    return None if got == want else '%s name %r comes out as %r, the documented rule gives %r' % (ty, hx(g['ok']['name']).decode('utf8', 'replace'), got.decode('utf8', 'replace'), want.decode('utf8', 'replace'))


def finding_role(v, resp):
    return 'other'


def vacuity(results):
    probs = []
    tags = {}
    for r in results:
        for k, n in r['outcomes'].items():
            tags[k] = tags.get(k, 0) + n
    for want in ['typed:' + n for n in NAMES] + ['unknown-type', 'maven-no-namespace', 'built']:
        if not tags.get(want):
            probs.append('no leaf with outcome %s' % want)
    return probs


LEVEL_TEXT = ('bounded symbolic model checking of the real MIR as a product: the same symbolic string goes through GenericPurl<String>::from_str and '
              'Purl::from_str on one path; the typed name must equal the documented rule (per-character Unicode lower-casing from the table of the real '
              'std; run-collapse for pypi; identity otherwise) applied to the type-agnostic name and all other components must be identical -- solver validity '
              'queries over all byte values of the holes, i.e. every scalar value and every short combination; the builder entry point likewise')
