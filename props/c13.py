"""C13 -- all built-in type parameters behave identically."""
from .std import *

ID = 'C13'
PROGS = ['default']


def outcome_parse(L, T, s):
    I = L.I
    r = from_str(I, T, s)
    if r.variant == 'Err':
        return ('err', err_name(r.fields[0]), None, None)
    p = r.fields[0]
    return ('ok', None, accessors(I, T, p), display(I, T, p))


def compare(L, what, o1, o2, T1, T2):
    if o1[0] != o2[0]:
        L.fail('%s: %s gives %s but %s gives %s' % (what, T1, o1[0] if o1[0] == 'ok' else o1[1], T2, o2[0] if o2[0] == 'ok' else o2[1]))
        return
    if o1[0] == 'err':
        if o1[1] != o2[1]:
            L.fail('%s: %s fails with %s but %s with %s' % (what, T1, o1[1], T2, o2[1]))
        return
    a1, a2 = o1[2], o2[2]
    terms = []
    for f in ('type', 'ns', 'name', 'ver', 'sub'):
        x, y = a1[f], a2[f]
        if (x is None) != (y is None) or (x is not None and len(x) != len(y)):
            L.fail('%s: accessor %s differs between %s and %s' % (what, f, T1, T2))
            return
        if x is not None:
            terms.append(bytes_eq_term(x, y))
    if len(a1['quals']) != len(a2['quals']):
        L.fail('%s: qualifiers differ between %s and %s' % (what, T1, T2))
        return
    for (k1, v1), (k2, v2) in zip(a1['quals'], a2['quals']):
        terms += [bytes_eq_term(k1, k2), bytes_eq_term(v1, v2)]
    terms.append(bytes_eq_term(o1[3], o2[3]))
    L.check('%s: %s and %s give the same accessors and canonical string' % (what, T1, T2), b_and(*terms))


def h_parser(L, parts):
    s, _ = template_bytes(L, parts)
    L.assume_utf8(s)
    reqs = [{'op': 'parse', 'T': KINDS[T][1], 's': SymStr(s)} for T in ('String', 'SmallString')]
    req = {'op': 'multi', 'reqs': reqs}
    L.expect_native(req, {})
    try:
        o1 = outcome_parse(L, 'String', s)
        o2 = outcome_parse(L, 'SmallString', s)
    except Panic as e:
        L.fail('panic: %s' % e.msg)
        return 'panic'
    exp = []
    for o in (o1, o2):
        exp.append({'err': o[1]} if o[0] == 'err' else {'ok': obs_expect(o[2], o[3])})
    L.expect_native(req, {'res': exp})
    compare(L, 'parse', o1, o2, 'String', 'SmallString')
    return 'accepted' if o1[0] == 'ok' else 'rejected'


def h_builder(L, n, steps, ty=None, name='n'):
    I = L.I

    def mat(x):
        if isinstance(x, tuple):
            b = L.sym_bytes(x[1], x[2])
            if len(x) > 3:
                L.restrict(b, x[3])
            L.assume_utf8(b)
            return b
        return list(x.encode())
    if ty is None:
        ty = L.sym_bytes('t', n)
        L.assume_utf8(ty)
    else:
        ty = list(ty.encode())
    name = mat(name)
    st = [(m,) + tuple(mat(a) for a in args) for m, *args in steps]
    kinds = ('String', 'CowB', 'CowO', 'SmallString')
    reqs = [{'op': 'build', 'T': KINDS[T][1], 'type': SymStr(ty), 'name': SymStr(name), 'steps': [[m] + [SymStr(a) for a in args] for m, *args in st]} for T in kinds]
    req = {'op': 'multi', 'reqs': reqs}
    L.expect_native(req, {})
    outs = []
    try:
        for T in kinds:
            b = b_new(I, T, mk_type(I, T, ty), list(name))
            bad = None
            for m, *args in st:
                b = b_call(I, T, b, m, *args)
                if m == 'with_qualifier':
                    if b.variant == 'Err':
                        bad = 'with_qualifier:' + err_name(b.fields[0])
                        break
                    b = b.fields[0]
            if bad:
                outs.append(('err', bad, None, None))
                continue
            r = b_build(I, T, b)
            if r.variant == 'Err':
                outs.append(('err', err_name(r.fields[0]), None, None))
            else:
                p = r.fields[0]
                outs.append(('ok', None, accessors(I, T, p), display(I, T, p)))
    except Panic as e:
        L.fail('panic: %s' % e.msg)
        return 'panic'
    L.expect_native(req, {'res': [({'err': o[1]} if o[0] == 'err' else {'ok': obs_expect(o[2], o[3])}) for o in outs]})
    for T, o in zip(kinds[1:], outs[1:]):
        compare(L, 'build', outs[0], o, 'String', T)
    return 'built' if outs[0][0] == 'ok' else 'rejected'


def queries(tier):
    deep = 1 if tier == 'thorough' else 0      # the former thorough bounds are the quick bounds now
    th = True
    qs = []

    def addp(parts):
        qs.append(Query('parse String|SmallString %s' % show_template(parts), h_parser, {'parts': parts}, bound='input = %s through both instantiations on one path' % show_template(parts)))
    for n in lens(5 + deep):
        addp(['pkg:', ('hole', 'h', n)])
    for n in lens(5 if th else 4, 1):
        addp(['pkg:', ('hole', 'h', n), '/n'])
        addp(['pkg:', ('hole', 'h', n), '/ns/n@1?k=v#s'])
    for sl in SLOTS_MIN + SLOTS_FULL:
        for n in lens(3 + deep, 1):
            addp(fill(sl, n))
    for n in lens(4 if th else 3, 1):
        addp(['pkg:t/n?checksum=', ('hole', 'h', n)])
    for parts in STRUCT_TEMPLATES(deep) + LONG_TEMPLATES():
        addp(parts)
    for n in lens(5 + deep):
        for steps in ([], [('with_namespace', 'ns'), ('with_version', '1'), ('with_qualifier', 'K', 'v'), ('with_subpath', 's')]):
            qs.append(Query('build String|Cow|SmallString type=⟦%d⟧ %s' % (n, 'full' if steps else 'minimal'), h_builder, {'n': n, 'steps': steps},
                            bound='type string = every valid-UTF-8 string of %d bytes (valid and invalid types), four type parameters on one path' % n))
    # two defects at once (a free, possibly invalid type next to an empty name / a malformed checksum): the same error from every parameter
    for n in lens(3, 1):
        qs.append(Query('build String|Cow|SmallString type=⟦%d⟧ empty name' % n, h_builder, {'n': n, 'steps': [], 'name': ''},
                        bound='type string = every valid-UTF-8 string of %d bytes, name "", four type parameters on one path' % n))
        qs.append(Query('build String|Cow|SmallString type=⟦%d⟧ malformed checksum' % n, h_builder, {'n': n, 'steps': [('with_qualifier', 'checksum', 'sha1:zz')]},
                        bound='type string = every valid-UTF-8 string of %d bytes, checksum "sha1:zz", four type parameters on one path' % n))
    # field values free (type fixed): each PurlShape impl finishes / validates the same parts
    FULL = [('with_namespace', 'ns'), ('with_version', '1'), ('with_qualifier', 'K', 'v'), ('with_subpath', 's')]

    def addb(name, steps):
        qs.append(Query('build String|Cow|SmallString %s' % show_steps('Ty', name, steps), h_builder, {'n': 0, 'steps': steps, 'ty': 'Ty', 'name': name},
                        bound='builder script %s, four type parameters on one path' % show_steps('Ty', name, steps)))
    for n in lens(3 + deep):
        h = ('hole', 'h', n)
        addb(h, [])
        addb(h, FULL)
        for meth in ('with_namespace', 'with_version', 'with_subpath'):
            addb('n', [(meth, h)])
            addb('n', FULL + [(meth, h)])
        addb('n', [('with_qualifier', 'k', h)])
        if n:
            addb('n', [('with_qualifier', h, 'v')])
            addb('n', FULL + [('with_qualifier', h, 'v')])
            addb('n', [('with_qualifier', 'checksum', h)])
    for n in (4, 5):
        addb('n', [('with_namespace', ('hole', 'h', n, b'/a'))])
        addb('n', [('with_subpath', ('hole', 'h', n, b'/.a'))])
    return qs


def native_request(v):
    return v['case']


def confirm(v, resp):
    rs = resp.get('res', [])
    if any('panic' in r for r in rs):
        return 'panicked'
    def key(r):
        if 'ok' in r:
            o = r['ok']
            return ('ok', o['type'], o['ns'], o['name'], o['ver'], str(o['quals']), o['sub'], o['disp'])
        return ('err', r.get('err'))
    ks = [key(r) for r in rs]
    if len(set(ks)) > 1:
        return 'type parameters disagree: %r' % [k[:2] + (bytes.fromhex(k[7]).decode('utf8', 'replace'),) if k[0] == 'ok' else k for k in ks]
    return None


def finding_role(v, resp):
    return 'other'


vacuity = std_vacuity
LEVEL_TEXT = ('bounded symbolic model checking of the real MIR as a product: the same symbolic input runs through two (parser) or four (builder) '
              'instantiations of the type parameter on one path and equality of outcome, error, type, accessors and canonical string is a solver validity query; '
              'decides divergence between purl\'s three PurlShape impls (String, Cow, SmartString) and their callers')
ASSUMPTIONS = ['SmartString::is_inline() is modelled by a high-water mark per buffer (inline while it never held more than 23 bytes); only the in-place edits listed in the queries (truncate of parts fields / a qualifier value) produce short-but-boxed values',
               'String and SmartString share one model in the engine: differences inside the smartstring crate itself are only sampled by native witness replay']
