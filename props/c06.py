"""C06 -- no input makes the library panic."""
from .qops import *
from .cksum import *
from .c11 import NOKEY, WITHVAL

ID = 'C06'
PROGS = ['default']


def h_api(L, T, parts):
    """parse, then exercise every read-only API of the value: accessors, Display, clone/re-build, ==, cmp, hash"""
    I = L.I
    s, _ = template_bytes(L, parts)
    L.assume_utf8(s)
    req = {'op': 'parse', 'T': KINDS[T][1], 's': SymStr(s)}
    L.expect_native(req, {})
    try:
        r = from_str(I, T, s)
        if r.variant == 'Err':
            L.expect_native(req, {'err': err_name(r.fields[0])})
            if T == 'Purl':
                # error Display of PackageError / ParseError
                f = Formatter()
                I.trait_call('Display', 'fmt', parse_type('PackageError'), [Ref([r.fields[0]], 0), Ref([f], 0)])
            else:
                f = Formatter()
                I.trait_call('Display', 'fmt', parse_type('ParseError'), [Ref([r.fields[0]], 0), Ref([f], 0)])
            return 'rejected'
        p = r.fields[0]
        acc = accessors(I, T, p)
        disp = display(I, T, p)
        L.expect_native(req, {'ok': obs_expect(acc, disp)})
        # formatting under the flags a format string can set ({:1}, {:>80}, {:*^3}, {:#}, {:.3}, {:+}): no panic either
        for kw in ({'width': 1}, {'width': 80, 'align': 'Right'}, {'width': 3, 'align': 'Center', 'fill': 0x2A}, {'alternate': True}, {'precision': 3}, {'sign_plus': True}):
            f = Formatter(**{k: v for k, v in kw.items() if k not in ('align', 'fill')})
            f.align, f.fill = kw.get('align'), kw.get('fill', 0x20)
            I.call('<GenericPurl<%s> as Display>::fmt' % tytext(T), [Ref([p], 0), Ref([f], 0)])
        cl = I.trait_call('Clone', 'clone', purl_ty(T), [Ref([p], 0)])
        b = I.call('GenericPurl::<%s>::into_builder' % tytext(T), [cl])
        b_build(I, T, b)
        purl_eq(I, T, p, p)
        I.trait_call('Ord', 'cmp', purl_ty(T), [Ref([p], 0), Ref([p], 0)])
        I.trait_call('PartialOrd', 'partial_cmp', purl_ty(T), [Ref([p], 0), Ref([p], 0)])
        hash_stream(I, T, p)
        if T == 'Purl':
            I.call('GenericPurl::<package_type::PackageType>::combined_name', [Ref([p], 0)])
    except Panic as e:
        L.expect_native(req, {})
        L.fail('panic: %s' % e.msg)
        return 'panic'
    return 'accepted'


def h_checksum(L, start, ops, alen, vlen):
    """operations of the typed checksum value (including the empty one), then serialisation and use in a builder"""
    I = L.I
    steps = []
    try:
        if start is None:
            ck = ck_default(I)
            req = {'op': 'checksum', 'from': None, 'steps': steps}
        else:
            t = L.sym_bytes('t', start)
            L.assume_utf8(t)
            req = {'op': 'checksum', 'from': SymStr(t), 'steps': steps}
            r = ck_from(I, t)
            if r.variant == 'Err':
                L.expect_native(req, {'from_err': err_name(r.fields[0])})
                return 'from-refused'
            ck = r.fields[0]
        L.expect_native(req, {})
        for i, op in enumerate(ops):
            a = L.sym_bytes('a%d_' % i, alen)
            L.assume_utf8(a)
            if op == 'insert_raw':
                v = L.sym_bytes('v%d_' % i, vlen)
                L.assume_utf8(v)
                steps.append(['insert_raw', SymStr(a), SymStr(v)])
                ck_insert_raw(I, ck, a, v)
            elif op == 'insert':
                v = L.sym_bytes('v%d_' % i, vlen)
                steps.append(['insert', SymStr(a), SymStr(v)])
                ck_insert(I, ck, a, v)
            elif op == 'remove':
                steps.append(['remove', SymStr(a)])
                ck_remove(I, ck, a)
            elif op == 'get':
                steps.append(['get', SymStr(a)])
                ck_get(I, ck, a)
            elif op == 'get_raw':
                steps.append(['get_raw', SymStr(a)])
                ck_get_raw(I, ck, a)
        # iteration APIs
        it = I.call("Checksum::<'_>::iter", [Ref([ck], 0)])
        while I.call("<ChecksumIter<'_> as Iterator>::next", [Ref([it], 0)]).variant != 'None':
            pass
        r = ck_text(I, clone_val(ck))
        if r.variant == 'Err':
            L.expect_native(req, {'text': {'err': err_name(r.fields[0])}})
        else:
            L.expect_native(req, {'text': {'ok': SymStr(list(sbytes(r.fields[0])))}})
        # the same value handed to the builder
        b = b_new(I, 'String', StringBuf(b't'), list(b'n'))
        rb = I.call("builder::GenericPurlBuilder::<String>::try_with_typed_qualifier::<Checksum<'_>>", [b, Some(ck)])
        if rb.variant == 'Ok':
            b_build(I, 'String', rb.fields[0])
    except Panic as e:
        L.fail('panic: %s' % e.msg)
        return 'panic'
    return 'ok'


def h_qop(L, nkeys, op, keylen, vallen):
    I = L.I
    items = pre_state(L, nkeys, [1, 2, 1][:nkeys], 1)
    key = L.sym_bytes('key', keylen)
    val = L.sym_bytes('val', vallen)
    L.assume_utf8(key)
    L.assume_utf8(val)
    q = mk_quals(items)
    req = {'op': 'quals', 'init': [[SymStr(k), SymStr(v)] for k, v in items],
           'steps': [[op] + ([SymStr(key)] if op not in NOKEY else []) + ([SymStr(val)] if op in WITHVAL else [])]}
    if op == 'reserve':
        req['steps'] = [[op, 3]]
    L.expect_native(req, {})
    try:
        run_op(L, q, op, key, val)
    except Panic as e:
        if op in ('index', 'index_set'):
            # documented: indexing a qualifier that is absent
            valid = key_valid(L, key)
            if not valid or ref_find(L, items, R_.lower(L, key)) is None:
                return 'documented-panic'
        if op == 'typedBad_insert':
            return 'documented-panic'       # documented: inserting a typed qualifier whose declared key is invalid
        L.fail('panic: %s' % e.msg)
        return 'panic'
    return 'ok'


def h_builder(L, T, ty, name, steps):
    r = h_built(L, T, ty, name, steps, [])
    return r


def queries(tier):
    # thorough = the quick inputs with full witness replay and the cvc5 cross-check (deeper bounds were never shown to finish within the cap)
    th = False
    qs = []

    def addp(T, parts):
        qs.append(Query('%s api %s' % (T, show_template(parts)), h_api, {'T': T, 'parts': parts},
                        bound='input = %s, every valid-UTF-8 byte string in the hole' % show_template(parts)))
    for T in ('String', 'SmallString', 'Purl'):
        deep = T == 'String'
        for n in lens(6 if th and deep else 5 if deep else 4):
            addp(T, [('hole', 'h', n)])
        for n in lens(5 if th and deep else 4 if deep else 3):
            addp(T, ['pkg:', ('hole', 'h', n)])
        m = 3 if deep or th else 2
        for sl in SLOTS_MIN + SLOTS_FULL:
            for n in lens(m, 1):
                addp(T, fill(sl, n) if T != 'Purl' else [p.replace('pkg:t/', 'pkg:npm/') if isinstance(p, str) else p for p in fill(sl, n)])
        for n in lens(4 if th else 3, 1):
            addp(T, ['pkg:%s/n?checksum=' % ('t' if T != 'Purl' else 'gem'), ('hole', 'h', n)])
    for ty in PT_VARIANTS:
        for n in lens(3 if th else 2, 1):
            addp('Purl', ['pkg:%s/' % ty, ('hole', 'h', n)])
            addp('Purl', ['pkg:%s/ns/' % ty, ('hole', 'h', n)])
    for ty in ('nuget', 'pypi'):
        for n in ((3, 4, 5) if th else (3, 4)):
            addp('Purl', ['pkg:%s/' % ty, ('hole', 'h', n)])
    for n in ((4, 5) if th else (4,)):
        addp('String', ['pkg:t/n?checksum=', ('hole', 'h', n), ':'])
    # typed checksum value
    seqs = [[], ['insert_raw'], ['insert'], ['remove'], ['get'], ['get_raw'], ['insert_raw', 'insert_raw'], ['insert', 'remove'],
            ['insert_raw', 'get'], ['insert', 'get'], ['insert_raw', 'get_raw'], ['insert_raw', 'insert']]
    if th:
        seqs += [['insert_raw', 'insert_raw', 'remove'], ['insert', 'insert', 'get'], ['insert_raw', 'remove', 'insert_raw']]
    for ops in seqs:
        for al in ((0, 1, 2) if th else (0, 1)):
            qs.append(Query('checksum default %s alg=⟦%d⟧' % ('+'.join(ops) or 'nothing', al), h_checksum,
                            {'start': None, 'ops': ops, 'alen': al, 'vlen': 2 if th else 1},
                            bound='Checksum::default() then %s with algorithm names of %d free bytes' % (ops, al)))
    for al in ((3, 4, 5) if th else (3, 4)):
        qs.append(Query('checksum default insert_raw alg=⟦%d⟧' % al, h_checksum, {'start': None, 'ops': ['insert_raw'], 'alen': al, 'vlen': 0},
                        bound='Checksum::default().insert_raw(algorithm of %d free bytes, "")' % al))
    for n in lens(5 if th else 4):
        qs.append(Query('checksum from ⟦%d⟧' % n, h_checksum, {'start': n, 'ops': ['insert_raw', 'get'], 'alen': 1, 'vlen': 1},
                        bound='Checksum::try_from(text of %d free bytes) then insert_raw + get' % n))
    # qualifier collection operations
    for op in OPS:
        for nk in (0, 1, 2):
            for kl in ((0, 1, 2, 3) if th else (0, 1, 2)):
                if op in NOKEY and kl:
                    continue
                qs.append(Query('quals %s state=%d key=⟦%d⟧' % (op, nk, kl), h_qop, {'nkeys': nk, 'op': op, 'keylen': kl, 'vallen': 1 if op in WITHVAL else 0},
                                bound='any invariant-satisfying collection of %d entries, key argument of %d free bytes' % (nk, kl)))
    # builder: every setter with a free argument, every type parameter
    qs += build_family(tier, [], kinds=('String', 'SmallString', 'CowB', 'CowO', 'Purl'), name_prefix='builder ')
    return qs


def native_request(v):
    return v['case']


def confirm(v, resp):
    if isinstance(resp.get('ok'), dict) and resp['ok'].get('fmt_panics'):
        return 'formatting %r with %s panics' % (hx(resp['ok']['disp']).decode('utf8', 'replace'), ', '.join(resp['ok']['fmt_panics']))
    if 'panic' in resp:
        req = v['case']
        if req.get('op') == 'quals' and req['steps'] and req['steps'][0][0] in ('index', 'index_set') and 'not found' in resp['panic']:
            return None
        if req.get('op') == 'quals' and req['steps'] and req['steps'][0][0] == 'typedBad_insert':
            return None
        return 'panics with %r' % resp['panic']
    return None


def finding_role(v, resp):
    if v['case'].get('op') == 'checksum' and 'subtract with overflow' in resp.get('panic', ''):
        return 'empty-checksum-serialisation-underflow'
    return 'other'


def vacuity(results):
    probs = []
    for want in ('accepted', 'rejected', 'ok', 'documented-panic', 'built'):
        if not any(r['outcomes'].get(want) for r in results):
            probs.append('no leaf with outcome %s' % want)
    return probs


LEVEL_TEXT = ('bounded symbolic model checking of the real MIR compiled with overflow checks and debug assertions: every feasible path of '
              'parsing, formatting, re-building, comparing and hashing over the listed input templates, of every Qualifiers / Entry operation '
              'from arbitrary invariant-satisfying states, of Checksum operation sequences (including the empty value) and of builder scripts is '
              'executed; reaching an `assert` failure, unwrap-on-None, unreachable!, index precondition or the step budget is a feasible-path '
              'question decided by the solver; only the documented index panic is tolerated')
OUTSIDE_EXTRA = ['strings up to 1 MiB (only the listed hole sizes)', 'panics inside modelled std/dependency functions other than their documented preconditions',
                 'the two documented panics that need a user-written type (invalid KnownQualifierKey::KEY, invalid PurlShape::package_type) are exercised under C14']
OUTSIDE = OUTSIDE + OUTSIDE_EXTRA
