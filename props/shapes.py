"""Model shapes: a parameterised family of user-written `FromStr + PurlShape` implementations (C14, C04).

The type parameter T is the opaque type `ModelShape`; purl's own MIR (from_str, build, Display) is interpreted unchanged and
calls `<ModelShape as FromStr>::from_str`, `<ModelShape as PurlShape>::finish / package_type` through the models below, which
log every call and behave as configured in `I.shape_cfg` (mirrored natively by native/src/shape.rs).
"""
from mirsym.interp import model, Program
from mirsym.vals import *
from mirsym.models import sbytes

Program.STD_ASSOC[('FromStr', 'Err', 'ModelShape')] = ('adt', 'ModelError', ())
Program.STD_ASSOC[('PurlShape', 'Error', 'ModelShape')] = ('adt', 'ModelError', ())
T = 'ModelShape'


@model('FromStr::from_str@ModelShape')
def m_shape_from_str(I, c, s):
    I.log.append(('conv', list(sbytes(s))))
    if I.shape_cfg.get('conv_ok', True):
        return Ok(Adt('ModelShape', None, [StringBuf(sbytes(s))]))
    return Err(Adt('ModelError', 'Conv', []))


@model('PurlShape::package_type@ModelShape')
def m_shape_package_type(I, c, r):
    ts = I.shape_cfg.get('type_string')
    if ts is not None:
        return Adt('Cow', 'Owned', [StringBuf(ts)])
    return Adt('Cow', 'Borrowed', [RStr(sbytes(deref_all(r).fields[0]))])


@model('PurlShape::finish@ModelShape')
def m_shape_finish(I, c, r, parts):
    p = deref_all(parts)
    I.log.append(('finish', list(p.fields[1].b)))
    for e in I.shape_cfg.get('hook', []):
        if e[0] == 'fail':
            return Err(Adt('ModelError', 'Hook', []))
        if e[0] in ('name', 'ns', 'ver', 'sub'):
            p.fields[{'ns': 0, 'name': 1, 'ver': 2, 'sub': 4}[e[0]]] = StringBuf(e[1])
        elif e[0] == 'qual':
            res = I.call('Qualifiers::insert::<&str, &str>', [Ref(p.fields, 3), RStr(e[1]), RStr(e[2])])
            if res.variant == 'Err':
                return Err(Adt('ModelError', 'Hook', []))
    return Ok(UNIT())


@model('From::from@ModelError')
def m_model_error_from(I, c, e):
    if isinstance(e, Adt) and e.ty == 'ModelError':
        return e
    return Adt('ModelError', 'Parse', [e])


def model_err_name(e):
    from .common import err_name
    if e.ty == 'ModelError':
        if e.variant == 'Parse':
            return 'Parse(%s)' % err_name(e.fields[0])
        return e.variant
    return err_name(e)
