"""C05 -- invalid input is refused, with the matching error, however it is spelled."""
from .std import *
from . import ref

ID = 'C05'
PROGS = ['default']
NAMES = [b'cargo', b'gem', b'golang', b'maven', b'npm', b'nuget', b'pypi']


def expected_error(T, d):
    if T == 'Purl':
        if d == 'unknowntype':
            return 'UnsupportedType'
        if d == 'mavenns':
            return 'MissingRequiredField(Namespace)'
        return 'Parse(%s)' % ref.EXPECT[d]
    return ref.EXPECT[d]


def defects(L, T, s):
    R = ref.read(L, s)
    D = set(R.defects)
    if T == 'Purl' and R.type is not None and 'scheme' not in D and 'notype' not in D:
        known = None
        for nm in NAMES:
            if ref.eq(L, R.type, list(nm)):
                known = nm
        if known is None:
            D.add('unknowntype')
        elif known == b'maven' and not R.ns:
            D.add('mavenns')
    return R, D


def h_c05(L, T, parts, hexholes=()):
    I = L.I
    s, holes = template_bytes(L, parts)
    for hn in hexholes:
        for x in holes[hn]:
            L.assume(z3.Or(z3.And(z3.UGE(x, 0x30), z3.ULE(x, 0x39)), z3.And(z3.UGE(x, 0x41), z3.ULE(x, 0x46)), z3.And(z3.UGE(x, 0x61), z3.ULE(x, 0x66))))
    L.assume_utf8(s)
    req = {'op': 'parse', 'T': KINDS[T][1], 's': SymStr(s)}
    L.expect_native(req, {})
    try:
        r = from_str(I, T, s)
    except Panic as e:
        L.fail('panic: %s' % e.msg)
        return 'panic'
    if r.variant == 'Err':
        got = err_name(r.fields[0])
        L.expect_native(req, {'err': got})
    else:
        got = None
        L.expect_native(req, {'ok': {}})
    R, D = defects(L, T, s)
    if R.unspecified and not D:
        return 'unspecified'
    if R.unspecified:
        # a listed defect is present next to an unspecified repetition: acceptance is still forbidden, the error identity is not fixed
        if got is None:
            L.fail('accepted although the input has defect(s) %s' % ','.join(sorted(D)))
            return 'accepted-with-defect'
        return 'several-defects'
    if D:
        if got is None:
            L.fail('accepted although the input has defect(s) %s' % ','.join(sorted(D)))
            return 'accepted-with-defect'
        kinds = {expected_error(T, d) for d in D}
        if len(D) == 1 or len(kinds) == 1:
            want = next(iter(kinds))
            if got != want:
                L.fail('defect %s is refused with %s instead of %s' % (','.join(sorted(D)), got, want))
            return 'single:' + next(iter(D)) if len(D) == 1 else 'same-error'
        return 'several-defects'
    return 'accepted' if got is None else 'rejected-without-listed-defect:' + got


def queries(tier):
    th = tier == 'thorough'
    qs = []

    def add(T, parts, hexholes=()):
        qs.append(Query('%s %s%s' % (T, show_template(parts), ' (hex digits)' if hexholes else ''), h_c05, {'T': T, 'parts': parts, 'hexholes': hexholes},
                        bound='input = %s, ⟦n⟧ = every valid-UTF-8 byte string of n bytes%s' % (show_template(parts), '; holes restricted to hex digits' if hexholes else '')))
    for T in ('String', 'Purl'):
        deep = T == 'String'
        ty = 't' if deep else 'npm'
        # bounded language: whole string / whole tail / slots in minimal and full context
        for n in lens(5 if th and deep else 4 if deep else 3):
            add(T, ['pkg:', ('hole', 'h', n)])
        for n in lens(3 if th else 2):
            add(T, [('hole', 'h', n), 'pkg:t/n'])
            add(T, ['pk', ('hole', 'h', n), 't/n'])
        for n in lens(6 if th else 5):
            add(T, [('hole', 'h', n)])
        m = 4 if th and deep else 3 if deep else 2
        for sl in SLOTS_MIN + SLOTS_FULL:
            for n in lens(m, 1):
                add(T, [p.replace('pkg:t/', 'pkg:%s/' % ty) if isinstance(p, str) else p for p in fill(sl, n)])
        if deep:
            for pr in PAIRS:
                for a in lens(3 if th else 2, 1):
                    for b in lens(3 if th else 2, 1):
                        add(T, fill(pr, a, b))
        # escapes with free hex digits in every component position: every ill-formed UTF-8 pattern of 2 (quick) / 3 (thorough) escaped bytes
        HH = [('hole', 'a', 2), '%', ('hole', 'b', 2)]
        ctxs = [['pkg:%s/%%' % ty] + HH + ['/n'], ['pkg:%s/x/%%' % ty] + HH + ['/n'], ['pkg:%s/%%' % ty] + HH, ['pkg:%s/n@%%' % ty] + HH,
                ['pkg:%s/n?k=%%' % ty] + HH, ['pkg:%s/n#%%' % ty] + HH, ['pkg:%s/n#x/%%' % ty] + HH,
                ['pkg:%s/ns/n@1?k=v&l=%%' % ty] + HH + ['#s']]
        for c in ctxs:
            add(T, c, hexholes=('a', 'b'))
        if th and deep:
            for lead in ('E0', 'ED', 'EF', 'F0', 'F4'):
                for c in (['pkg:t/n@%' + lead + '%', ('hole', 'a', 2), '%', ('hole', 'b', 2)], ['pkg:t/n?k=%' + lead + '%', ('hole', 'a', 2), '%', ('hole', 'b', 2)]):
                    add(T, c, hexholes=('a', 'b'))
        # escaped separators in namespace / subpath segments, escaped type, escaped key
        for n in lens(2, 1):
            add(T, ['pkg:%s/a%%2' % ty, ('hole', 'h', 1), 'b/n'])
            add(T, ['pkg:%s/n#a%%2' % ty, ('hole', 'h', 1), 'b'])
        add(T, ['pkg:%', ('hole', 'a', 2), '/n'], hexholes=('a',))
        add(T, ['pkg:%s/n?%%' % ty, ('hole', 'a', 2), '=v'], hexholes=('a',))
        # duplicate keys in any case, with one- and two-byte values
        for n in lens(2 if th else 1):
            add(T, ['pkg:%s/n?' % ty, ('hole', 'a', 1), '=', ('hole', 'v', n), '&', ('hole', 'b', 1), '=', ('hole', 'w', n)])
        add(T, ['pkg:%s/n?ab=x&' % ty, ('hole', 'a', 2), '=y'])
        # three occurrences of keys: an empty-valued one between two non-empty ones
        add(T, ['pkg:%s/n?a=1&' % ty, ('hole', 'a', 1), '=', ('hole', 'v', 1), '&', ('hole', 'b', 1), '=2'])
        add(T, ['pkg:%s/n?a=1&' % ty, ('hole', 'a', 1), '=&', ('hole', 'b', 1), '=', ('hole', 'w', 1)])
        # checksum faults
        for n in lens(5 if th else 4, 1):
            add(T, ['pkg:%s/n?checksum=' % ty, ('hole', 'h', n)])
        add(T, ['pkg:%s/n?checksum=' % ty, ('hole', 'a', 1), ':00,', ('hole', 'b', 1), ':11'])
        add(T, ['pkg:%s/n?checksum=' % ty, ('hole', 'a', 2), ':,', ('hole', 'b', 2), ':'])
        # algorithm names mixing ASCII and non-ASCII letters, repeated in another case
        add(T, ['pkg:%s/n?checksum=A' % ty, ('hole', 'a', 2), ':,a', ('hole', 'b', 2), ':'])
        add(T, ['pkg:%s/n?checksum=' % ty, ('hole', 'a', 2), 'A:,', ('hole', 'b', 2), 'a:'])
        add(T, ['pkg:%s/n?checksum=sha1:' % ty, ('hole', 'h', 3 if th else 2), ',md5:00'])
        if T == 'String' or th:
            for parts in STRUCT_TEMPLATES(1 if th else 0):
                add(T, [p.replace('pkg:t/', 'pkg:%s/' % ty) if isinstance(p, str) else p for p in parts])
    # typed: unknown / known types in any letter case, maven namespace
    for n in lens(5 if th else 4, 1):
        add('Purl', ['pkg:', ('hole', 'h', n), '/n'])
    add('Purl', ['pkg:m', ('hole', 'h', 4), '/n'])
    for n in lens(3 if th else 2):
        add('Purl', ['pkg:maven/', ('hole', 'h', n), '/n'])
        add('Purl', ['pkg:MAVEN/', ('hole', 'h', n)])
    return qs


class _NullL:
    I = None


def native_request(v):
    return v['case']


def confirm(v, resp):
    if 'panic' in resp:
        return 'panicked: %s' % resp['panic']
    T = {'String': 'String', 'SmallString': 'SmallString', 'Purl': 'Purl'}[v['case']['T']]
    s = list(bytes.fromhex(v['case']['s']))
    R, D = defects(_NullL, T, s)
    if not D:
        return None
    if R.unspecified:
        return ('%r is accepted although it has defect(s) %s' % (bytes(s).decode('utf8', 'replace'), ','.join(sorted(D)))) if 'ok' in resp else None
    text = bytes(s).decode('utf8', 'replace')
    if 'ok' in resp:
        return '%r is accepted although it has defect(s) %s' % (text, ','.join(sorted(D)))
    kinds = {expected_error(T, d) for d in D}
    if len(kinds) == 1 and resp.get('err') != next(iter(kinds)):
        return '%r (defect %s) is refused with %s instead of %s' % (text, ','.join(sorted(D)), resp.get('err'), next(iter(kinds)))
    return None


def finding_role(v, resp):
    s = bytes.fromhex(v['case']['s'])
    if b'checksum=' in s and any(x >= 0x80 for x in s):
        return 'checksum-algorithms-differing-in-non-ascii-case'
    return 'other'


def vacuity(results):
    probs = []
    tags = {}
    for r in results:
        for k, n in r['outcomes'].items():
            tags[k] = tags.get(k, 0) + n
    for d in ('scheme', 'notype', 'badtype', 'noname', 'qual', 'utf8', 'slash', 'checksum', 'unknowntype', 'mavenns'):
        if tags.get('single:' + d, 0) == 0:
            probs.append('no leaf with the single defect %s' % d)
    if tags.get('accepted', 0) == 0:
        probs.append('no accepted leaf')
    return probs


LEVEL_TEXT = ('bounded symbolic model checking of the real MIR: an independent reference reading written from the property text collects every '
              'listed defect of the (symbolic) input on each path; `accepted with a defect` and `single defect refused with another error` '
              'are reachability questions decided by the solver, for the bounded language of the listed templates and for escapes with free hex digits '
              'in every component position')
