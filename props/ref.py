"""Independent reference reading of a PURL string, written from the text of properties C02 / C05 / C07.

Works on byte lists whose elements may be symbolic (decisions fork through the same path context as the code
under test).  It deliberately shares no code with the engine's models of percent-decoding / UTF-8 validation:
escapes are decoded digit by digit and well-formedness of UTF-8 is judged on scalar values (shortest form, no
surrogates, <= U+10FFFF) instead of byte-range tables.
"""
import z3
from mirsym.models import beq, in_set, in_range, seq_cmp
from .lib import tt

HEXD = tt((0x30, 0x39), (0x41, 0x46), (0x61, 0x66))
TYPE_CH = tt((0x30, 0x39), (0x41, 0x5A), (0x61, 0x7A), b'.+-')
KEY_CH = tt((0x30, 0x39), (0x41, 0x5A), (0x61, 0x7A), b'._-')


def find(L, b, ch, last=False):
    rng_ = range(len(b) - 1, -1, -1) if last else range(len(b))
    for i in rng_:
        if beq(L.I, b[i], ch):
            return i
    return None


def split(L, b, ch):
    out, cur = [], []
    for x in b:
        if beq(L.I, x, ch):
            out.append(cur)
            cur = []
        else:
            cur.append(x)
    out.append(cur)
    return out


def hexv(L, d):
    if isinstance(d, int):
        return int(chr(d), 16)
    if in_range(L.I, d, 0x30, 0x39):
        return d - 0x30
    if in_range(L.I, d, 0x41, 0x46):
        return d - 0x37
    return d - 0x57


def unescape(L, b):
    """(decoded bytes, had_escape)"""
    out, i, esc = [], 0, False
    n = len(b)
    while i < n:
        if n - i >= 3 and beq(L.I, b[i], 0x25) and in_set(L.I, b[i + 1], HEXD) and in_set(L.I, b[i + 2], HEXD):
            v = hexv(L, b[i + 1]) * 16 + hexv(L, b[i + 2])
            out.append(v if isinstance(v, int) else z3.simplify(v))
            i += 3
            esc = True
        else:
            out.append(b[i])
            i += 1
    return out, esc


def wellformed_utf8(L, b):
    """judge on scalar values: shortest form, not a surrogate, at most U+10FFFF"""
    I = L.I
    i, n = 0, len(b)

    def cont(x):
        return in_range(I, x, 0x80, 0xBF)

    def W(v):
        return v if isinstance(v, int) else z3.ZeroExt(24, v)
    while i < n:
        x = b[i]
        if in_range(I, x, 0x00, 0x7F):
            i += 1
            continue
        if in_range(I, x, 0xC0, 0xDF):
            k = 1
        elif in_range(I, x, 0xE0, 0xEF):
            k = 2
        elif in_range(I, x, 0xF0, 0xF7):
            k = 3
        else:
            return False
        if i + k >= n:
            return False
        for j in range(1, k + 1):
            if not cont(b[i + j]):
                return False
        if k == 1:
            cp = ((W(x) & 0x1F) << 6) | (W(b[i + 1]) & 0x3F)
            lo = 0x80
        elif k == 2:
            cp = ((W(x) & 0x0F) << 12) | ((W(b[i + 1]) & 0x3F) << 6) | (W(b[i + 2]) & 0x3F)
            lo = 0x800
        else:
            cp = ((W(x) & 0x07) << 18) | ((W(b[i + 1]) & 0x3F) << 12) | ((W(b[i + 2]) & 0x3F) << 6) | (W(b[i + 3]) & 0x3F)
            lo = 0x10000
        if isinstance(cp, int):
            ok = cp >= lo and not (0xD800 <= cp <= 0xDFFF) and cp <= 0x10FFFF
        else:
            ok = I.ctx.decide(z3.And(z3.UGE(cp, lo), z3.Not(z3.And(z3.UGE(cp, 0xD800), z3.ULE(cp, 0xDFFF))), z3.ULE(cp, 0x10FFFF)))
        if not ok:
            return False
        i += k + 1
    return True


def lower(L, b):
    out = []
    for x in b:
        if isinstance(x, int):
            out.append(x + 0x20 if 0x41 <= x <= 0x5A else x)
        elif in_range(L.I, x, 0x41, 0x5A):
            out.append(z3.simplify(x + 0x20))
        else:
            out.append(x)
    return out


def eq(L, a, b):
    if len(a) != len(b):
        return False
    return all(beq(L.I, x, y) for x, y in zip(a, b))


def is_dots(L, seg):
    return len(seg) in (1, 2) and all(beq(L.I, x, 0x2E) for x in seg)


class Reading:
    def __init__(self):
        self.defects = set()
        self.type = self.ns = self.name = self.ver = self.sub = None
        self.quals = []
        self.unspecified = False


def read(L, s, checksum=True):
    """reference reading of the string `s` (byte list).  Collects every defect kind of C05 and, when there is none,
    the components (type lower-cased, namespace/subpath as lists of decoded segments)."""
    I = L.I
    R = Reading()
    D = R.defects
    if len(s) < 4 or not eq(L, s[:4], list(b'pkg:')):
        D.add('scheme')
        return R
    s = s[4:]
    while s and beq(I, s[0], 0x2F):
        s = s[1:]
    # subpath
    i = find(L, s, 0x23, last=True)
    if i is not None:
        raw = s[i + 1:]
        s = s[:i]
        segs = []
        for piece in split(L, raw, 0x2F):
            if len(piece) == 0 or is_dots(L, piece):
                continue
            d, esc = unescape(L, piece)
            if not wellformed_utf8(L, d):
                D.add('utf8')
                continue
            if any(beq(I, x, 0x2F) for x in d):
                D.add('slash')
            if is_dots(L, d):
                R.unspecified = True       # an escaped dot segment: C07 forbids reporting it, C05 does not say it must be an error
            segs.append(d)
        R.sub = segs
    # qualifiers
    i = find(L, s, 0x3F, last=True)
    if i is not None:
        raw = s[i + 1:]
        s = s[:i]
        seen = []
        for item in split(L, raw, 0x26):
            j = find(L, item, 0x3D)
            if j is None:
                D.add('qual')
                continue
            k, v = item[:j], item[j + 1:]
            if len(k) == 0 or not all(in_set(I, x, KEY_CH) for x in k):
                D.add('qual')
                continue
            k = lower(L, k)
            d, _ = unescape(L, v)
            nonempty = len(d) > 0
            earlier = [ne for k2, ne in seen if eq(L, k, k2)]
            if earlier:
                if nonempty and any(earlier):
                    D.add('qual')          # two non-empty values for one key, in any letter case
                else:
                    R.unspecified = True   # repetition with an empty value: neither demanded nor forbidden by C05
                seen.append((k, nonempty))
                continue
            if not wellformed_utf8(L, d):
                D.add('utf8')
                seen.append((k, True))
                continue
            seen.append((k, nonempty))
            if nonempty:
                R.quals.append((k, d))
    if len(s) == 0:
        D.add('notype')
        return R
    i = find(L, s, 0x2F)
    if i is None:
        ty, rest = s, None
    else:
        ty, rest = s[:i], s[i + 1:]
    if len(ty) == 0 or not all(in_set(I, x, TYPE_CH) for x in ty):
        D.add('badtype')
    else:
        R.type = lower(L, ty)
    if rest is None:
        D.add('noname')
        return R
    i = find(L, rest, 0x40, last=True)
    if i is not None:
        d, _ = unescape(L, rest[i + 1:])
        rest = rest[:i]
        if not wellformed_utf8(L, d):
            D.add('utf8')
        elif len(d) > 0:
            R.ver = d
    i = find(L, rest, 0x2F, last=True)
    if i is not None:
        raw = rest[:i]
        rest = rest[i + 1:]
        segs = []
        for piece in split(L, raw, 0x2F):
            if len(piece) == 0:
                continue
            d, esc = unescape(L, piece)
            if not wellformed_utf8(L, d):
                D.add('utf8')
                continue
            if any(beq(I, x, 0x2F) for x in d):
                D.add('slash')
            segs.append(d)
        R.ns = segs
    d, _ = unescape(L, rest)
    if not wellformed_utf8(L, d):
        D.add('utf8')
    elif len(d) == 0:
        D.add('noname')
    else:
        R.name = d
    # checksum qualifier
    if checksum:
        for k, v in R.quals:
            if all(isinstance(x, int) for x in k) and bytes(k) == b'checksum':
                if not read_checksum(L, v)[0]:
                    D.add('checksum')
    return R


def lower_unicode(L, b):
    """per-character lower-case mapping of a UTF-8 byte list, as scalar values (table of the real std)"""
    from mirsym.models import chars_of, char_lower_seq
    out = []
    for ch in chars_of(L.I, b):
        out.extend(char_lower_seq(L.I, ch))
    return out


def read_checksum(L, v):
    """(well-formed?, entries [(algorithm as lower-cased scalar values, hex digits)])"""
    I = L.I
    entries = []
    ok = True
    for e in split(L, v, 0x2C):
        j = find(L, e, 0x3A, last=True)
        if j is None:
            return False, []
        alg, hx = e[:j], e[j + 1:]
        if len(hx) % 2 != 0 or not all(in_set(I, x, HEXD) for x in hx):
            ok = False
        la = lower_unicode(L, alg)
        for a2, _ in entries:
            if len(a2) == len(la) and seq_cmp(I, [_w(x) for x in a2], [_w(x) for x in la]) == 0:
                ok = False        # algorithm repeated in some letter case
        entries.append((la, hx))
    return ok, entries


def _w(x):
    if isinstance(x, int):
        return x
    return z3.ZeroExt(32 - x.size(), x) if x.size() < 32 else x


EXPECT = {
    'scheme': 'UnsupportedUrlScheme', 'notype': 'MissingRequiredField(PackageType)', 'badtype': 'InvalidPackageType',
    'noname': 'MissingRequiredField(Name)', 'qual': 'InvalidQualifier', 'utf8': 'InvalidEscape', 'slash': 'InvalidEscape',
    'dots': 'InvalidEscape', 'checksum': 'InvalidQualifier',
}
