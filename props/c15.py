"""C15 -- package type names map one-to-one, case-insensitively."""
from .std import *
from . import ref as R_
from mirsym.models import ModelSerializer, ModelDeserializer, Formatter, b_not, b_or

ID = 'C15'
PROGS = ['default', 'serde']
NATIVE = 'serde'
NAMES = {'Cargo': 'cargo', 'Gem': 'gem', 'Golang': 'golang', 'Maven': 'maven', 'Npm': 'npm', 'NuGet': 'nuget', 'PyPI': 'pypi'}
PT = 'package_type::PackageType'


def pt_from_str(I, b):
    return I.call('<%s as FromStr>::from_str' % PT, [RStr(b)])


def h_agree(L, variant):
    """all string forms of one variant agree on one lower-case name; parsing it in any letter case returns the variant"""
    I = L.I
    v = Adt('PackageType', variant, [])
    want = list(NAMES[variant].encode())
    has_serde = 'serde' in L.I.prog.features
    L.expect_native({'op': 'ptype', 's': SymStr(want)}, {'ok': dict({'name': SymStr(want)}, **({'serde': SymStr(want)} if has_serde else {}))})
    forms = {}
    forms['name()'] = list(sbytes(I.call('package_type::PackageType::name', [Ref([v], 0)])))
    f = Formatter()
    I.trait_call('Display', 'fmt', parse_type('PackageType'), [Ref([v], 0), Ref([f], 0)])
    forms['Display'] = list(f.out)
    # Display under the flags a format string can set (`{:#}`, `{:+}`, `{:.3}`): none of them may change the name
    # (a width is left out: padding is the caller's request, and the implementation writes the name without consulting it)
    for label, kw in (('{:#}', {'alternate': True}), ('{:+}', {'sign_plus': True}), ('{:.9}', {'precision': 9}), ('{:09}', {'zero_pad': True, 'width': 9})):
        f = Formatter(**kw)
        I.trait_call('Display', 'fmt', parse_type('PackageType'), [Ref([v], 0), Ref([f], 0)])
        if label != '{:09}':
            forms['Display ' + label] = list(f.out)
        elif bytes(x for x in f.out if isinstance(x, int)).strip(b' 0') != bytes(want):
            forms['Display ' + label] = list(f.out)
    forms['AsRef<str>'] = list(sbytes(I.trait_call('AsRef', 'as_ref', parse_type('PackageType'), [Ref([v], 0)], (parse_type('str'),))))
    forms['From<PackageType> for &str'] = list(sbytes(I.trait_call('From', 'from', parse_type('&str'), [v], (parse_type('PackageType'),))))
    forms['PurlShape::package_type'] = list(sbytes(I.trait_call('PurlShape', 'package_type', parse_type('PackageType'), [Ref([v], 0)])))
    if 'serde' in L.I.prog.features:
        ser = ModelSerializer()
        I.call('<%s as Serialize>::serialize::<ModelSerializer>' % PT, [Ref([v], 0), ser])
        if len(ser.calls) != 1 or ser.calls[0][0] != 'unit_variant':
            L.fail('serde form is not a unit variant')
        else:
            forms['serde'] = list(ser.calls[0][3])
    for k, b in forms.items():
        if b != want:
            L.fail('%s of %s is %r, expected %r' % (k, variant, bytes(b), bytes(want)))
    # every case variant: one symbolic flip mask
    m = L.sym_bytes('m', 1)[0]
    q = [z3.If(z3.Extract(i, i, m) == 1, z3.BitVecVal(c ^ 0x20, 8), z3.BitVecVal(c, 8)) for i, c in enumerate(want)]
    q = [z3.simplify(x) for x in q]
    L.expect_native({'op': 'ptype', 's': SymStr(q)}, {'ok': {'name': SymStr(want), 'display': SymStr(want), 'as_ref': SymStr(want), 'into': SymStr(want), 'package_type': SymStr(want)}})
    r = pt_from_str(I, q)
    if r.variant != 'Ok' or r.fields[0].variant != variant:
        L.fail('parsing a case variant of %s does not return the type' % NAMES[variant])
    return 'agree'


def h_converse(L, parts):
    """any string that parses to a package type equals that type's name once ASCII-lower-cased"""
    I = L.I
    s, _ = template_bytes(L, parts)
    L.assume_utf8(s)
    req = {'op': 'ptype', 's': SymStr(s)}
    L.expect_native(req, {})
    r = pt_from_str(I, s)
    if r.variant == 'Err':
        L.expect_native(req, {'err': 'UnsupportedPackageType'})
        # completeness: a case variant of a name must not be refused
        low = R_.lower(L, s)
        for nm in NAMES.values():
            if R_.eq(L, low, list(nm.encode())):
                L.fail('a letter-case variant of %s is refused' % nm)
        return 'refused'
    v = r.fields[0].variant
    want = list(NAMES[v].encode())
    L.expect_native(req, {'ok': {'name': SymStr(want)}})
    low = R_.lower(L, s)
    if len(low) != len(want):
        L.fail('a string of another length is taken for %s' % NAMES[v])
        return 'parsed'
    L.check('ASCII-lower-cased input == name of the returned type', bytes_eq_term(low, want))
    return 'parsed'


def pt_deserialize(I, b):
    return I.call("<%s as Deserialize<'_>>::deserialize::<ModelDeserializer>" % PT, [ModelDeserializer('enum_str', list(b))])


def h_de_agree(L, variant):
    """the serde form read back: deserialising the name yields the variant"""
    I = L.I
    want = list(NAMES[variant].encode())
    L.expect_native({'op': 'ptype_de', 's': SymStr(want)}, {'ok': {'name': SymStr(want)}})
    r = pt_deserialize(I, want)
    if r.variant != 'Ok' or r.fields[0].variant != variant:
        L.fail('deserialising the serde form %s does not return the type' % NAMES[variant])
    return 'agree'


def h_de_converse(L, parts):
    """any string value that deserialises to a package type is that type's name (up to ASCII case)"""
    I = L.I
    s, _ = template_bytes(L, parts)
    L.assume_utf8(s)
    req = {'op': 'ptype_de', 's': SymStr(s)}
    L.expect_native(req, {})
    r = pt_deserialize(I, s)
    if r.variant == 'Err':
        return 'refused'
    v = r.fields[0].variant
    want = list(NAMES[v].encode())
    L.expect_native(req, {'ok': {'name': SymStr(want)}})
    low = R_.lower(L, s)
    if len(low) != len(want):
        L.fail('a string of another length deserialises to %s' % NAMES[v])
        return 'parsed'
    L.check('ASCII-lower-cased string value == name of the deserialised type', bytes_eq_term(low, want))
    return 'parsed'


def h_purl_converse(L, tparts):
    """the type string used in a PURL: if the typed parser takes `pkg:<T>/n` for a package type, <T> is that type's name up to ASCII case"""
    I = L.I
    t, holes = template_bytes(L, tparts)
    for hb in holes.values():
        for x in hb:
            L.assume(b_not(b_or(x == 0x2F, x == 0x3F, x == 0x23)))     # keep <T> the whole type segment as written
    s = list(b'pkg:') + t + list(b'/ns/n')
    L.assume_utf8(s)
    req = {'op': 'parse', 'T': 'Purl', 's': SymStr(s)}
    L.expect_native(req, {})
    try:
        r = from_str(I, 'Purl', s)
    except Panic as e:
        L.fail('panic: %s' % e.msg)
        return 'panic'
    if r.variant == 'Err':
        L.expect_native(req, {'err': err_name(r.fields[0])})
        low = R_.lower(L, t)
        for nm in NAMES.values():
            if R_.eq(L, low, list(nm.encode())):
                L.fail('a letter-case variant of %s is refused as the type of a PURL' % nm)
        return 'refused'
    p = r.fields[0]
    v = p.fields[0].variant
    want = list(NAMES[v].encode())
    L.expect_native(req, {'ok': {'type': SymStr(want)}})
    low = R_.lower(L, t)
    if len(low) != len(want):
        L.fail('a type string of another length is taken for %s by the typed parser' % NAMES[v])
        return 'parsed'
    L.check('ASCII-lower-cased type string of the PURL == name of the package type', bytes_eq_term(low, want))
    return 'parsed'


def queries(tier):
    deep = 1 if tier == 'thorough' else 0      # the former thorough bounds are the quick bounds now
    th = True
    qs = []
    for prog in PROGS:
        for v in NAMES:
            qs.append(Query('%s agree %s' % (prog, v), h_agree, {'variant': v}, bound='all 2^len letter-case variants of %s (one symbolic mask)' % NAMES[v], prog=prog))
    for n in lens(7 + deep):
        qs.append(Query('converse ⟦%d⟧' % n, h_converse, {'parts': [('hole', 'h', n)]}, bound='every valid-UTF-8 string of %d bytes' % n))
    # near misses and look-alikes around every name: one free scalar value inserted / substituted / appended
    for nm in NAMES.values():
        for i in range(len(nm) + 1):
            qs.append(Query('converse %s with ⟦3⟧ inserted at %d' % (nm, i), h_converse, {'parts': [nm[:i], ('hole', 'h', 3), nm[i:]]}, bound='%s with any ≤3-byte string inserted at %d' % (nm, i)))
        for i in range(len(nm)):
            for n in ((1, 2, 3) if th else (2, 3)):
                qs.append(Query('converse %s with char %d replaced by ⟦%d⟧' % (nm, i, n), h_converse, {'parts': [nm[:i], ('hole', 'h', n), nm[i + 1:]]}, bound='%s with letter %d replaced by any %d-byte string' % (nm, i, n)))
    # the type string used in a PURL, through the typed parser (escapes included: a 3-byte hole in place of every letter)
    for n in lens(5 + deep, 1):
        qs.append(Query('purl type ⟦%d⟧' % n, h_purl_converse, {'tparts': [('hole', 'h', n)]}, bound='pkg:<T>/ns/n through Purl::from_str, <T> = every string of %d bytes without / ? #' % n))
    for nm in NAMES.values():
        for i in range(len(nm)):
            qs.append(Query('purl type %s with char %d replaced by ⟦3⟧' % (nm, i), h_purl_converse, {'tparts': [nm[:i], ('hole', 'h', 3), nm[i + 1:]]},
                            bound='pkg:<T>/ns/n through Purl::from_str, <T> = %s with letter %d replaced by any 3-byte string' % (nm, i)))
    # the serde form read back (serde feature): derived Deserialize, driven through its identifier visitor
    for v in NAMES:
        qs.append(Query('serde deserialize agree %s' % v, h_de_agree, {'variant': v}, bound='the string value %s' % NAMES[v], prog='serde'))
    for n in lens(6 + deep):
        qs.append(Query('serde deserialize converse ⟦%d⟧' % n, h_de_converse, {'parts': [('hole', 'h', n)]}, bound='every valid-UTF-8 string value of %d bytes' % n, prog='serde'))
    for nm in NAMES.values():
        qs.append(Query('serde deserialize converse %s⟦2⟧' % nm, h_de_converse, {'parts': [nm, ('hole', 'h', 2)]}, bound='%s followed by any 2-byte string' % nm, prog='serde'))
        for i in range(len(nm)):
            qs.append(Query('serde deserialize converse %s with char %d replaced by ⟦2⟧' % (nm, i), h_de_converse, {'parts': [nm[:i], ('hole', 'h', 2), nm[i + 1:]]},
                            bound='%s with letter %d replaced by any ≤2-byte string' % (nm, i), prog='serde'))
    return qs


def native_request(v):
    return v['case']


def confirm(v, resp):
    if 'panic' in resp:
        return 'panicked: %s' % resp['panic']
    s = bytes.fromhex(v['case']['s'])
    if v['case']['op'] == 'parse':
        t = s[4:-5]
        asc = bytes(c + 32 if 65 <= c <= 90 else c for c in t)
        if 'ok' in resp:
            name = hx(resp['ok']['type'])
            return None if asc == name else 'the type string %r of a PURL is taken for the package type %r' % (t.decode('utf8', 'replace'), name.decode())
        if asc.decode('utf8', 'replace') in NAMES.values():
            return 'the case variant %r of a known name is refused as the type of a PURL (%s)' % (t, resp.get('err'))
        return None
    if v['case']['op'] == 'ptype_de':
        asc = bytes(c + 32 if 65 <= c <= 90 else c for c in s)
        if 'ok' in resp:
            name = hx(resp['ok']['name'])
            return None if asc == name else 'the string value %r deserialises to the package type %r' % (s.decode('utf8', 'replace'), name.decode())
        if s.decode('utf8', 'replace') in NAMES.values():
            return 'the serde form %r does not deserialise: %s' % (s.decode(), resp.get('err'))
        return None
    if 'ok' in resp:
        o = resp['ok']
        forms = {hx(o[k]) for k in ('name', 'display', 'as_ref', 'into', 'package_type', 'display_alt', 'display_plus', 'display_prec') if k in o}
        if o.get('serde') is not None:
            forms.add(hx(o['serde']))
        if len(forms) != 1:
            return 'string forms disagree: %r' % forms
        name = forms.pop()
        if name != name.lower() or s.decode('utf8', 'replace').encode() != s:
            pass
        asc = bytes(c + 32 if 65 <= c <= 90 else c for c in s)
        if asc != name:
            return '%r is taken for the package type %r' % (s.decode('utf8', 'replace'), name.decode())
        return None
    asc = bytes(c + 32 if 65 <= c <= 90 else c for c in s)
    if asc.decode('utf8', 'replace') in NAMES.values():
        return 'the case variant %r of a known name is refused' % s
    return None


def finding_role(v, resp):
    return 'other'


def vacuity(results):
    probs = []
    tags = {}
    for r in results:
        for k, n in r['outcomes'].items():
            tags[k] = tags.get(k, 0) + n
    for w in ('agree', 'parsed', 'refused'):
        if not tags.get(w):
            probs.append('no leaf with outcome ' + w)
    return probs


LEVEL_TEXT = ('bounded symbolic model checking of the real MIR: for each variant name(), Display, AsRef, From, package_type() and the serde unit-variant name are interpreted '
              '(default and serde feature dumps) and from_str on all 2^len case variants is one query with a symbolic flip mask; the converse runs from_str on every valid-UTF-8 '
              'string up to the stated length and on every name with a free scalar value inserted or substituted (look-alikes included); the case-folding of the lookup key '
              'comes from a table dumped from the real unicase crate')
ASSUMPTIONS = ['phf perfect hashing is trusted: Map::get is modelled as "the entry whose UniCase key equals the query"', 'derived Deserialize of PackageType is driven through the identifier-as-string path (self-describing formats); variant indices / byte identifiers of binary formats are outside']
