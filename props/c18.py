"""C18 -- combined names split and join at the ecosystem separator."""
from .std import *
from . import ref as R_

ID = 'C18'
PROGS = ['default']
SEP = {'golang': (0x2F, 'last'), 'npm': (0x2F, 'last'), 'maven': (0x3A, 'first')}


def want_split(L, ty, s):
    """(namespace | None, name) by the documented rule"""
    if ty not in SEP:
        return None, list(s)
    ch, which = SEP[ty]
    i = R_.find(L, s, ch, last=(which == 'last'))
    if i is None:
        return None, list(s)
    ns, name = s[:i], s[i + 1:]
    return (ns if len(ns) > 0 else None), name


def h_split(L, ty, n):
    I = L.I
    s = L.sym_bytes('h', n)
    L.assume_utf8(s)
    req = {'op': 'combined', 'type': SymStr(list(ty.encode())), 's': SymStr(s)}
    L.expect_native(req, {})
    try:
        b = I.call('GenericPurl::<package_type::PackageType>::builder_with_combined_name::<&str>', [mk_type(I, 'Purl', list(ty.encode())), RStr(s)])
    except Panic as e:
        L.fail('panic: %s' % e.msg)
        return 'panic'
    parts = b.fields[1]
    ns, name = list(parts.fields[0].b), list(parts.fields[1].b)
    L.expect_native(req, {'parts': {'ns': SymStr(ns), 'name': SymStr(name)}})
    wns, wname = want_split(L, ty, s)
    if len(name) != len(wname) or len(ns) != len(wns or []):
        L.fail('%s: combined name is split at the wrong place' % ty)
        return 'split'
    L.check('%s: name == part after the separator (or the whole string)' % ty, bytes_eq_term(name, wname))
    L.check('%s: namespace == part before the separator (or none)' % ty, bytes_eq_term(ns, wns or []))
    # "building from a combined name": the split must also be what the built PURL carries (types that keep the name as it is)
    if ty in ('cargo', 'gem', 'golang', 'npm', 'maven'):
        try:
            r = b_build(I, 'Purl', b)
        except Panic as e:
            L.fail('panic: %s' % e.msg)
            return 'panic'
        if r.variant == 'Ok':
            acc = accessors(I, 'Purl', r.fields[0])
            if len(acc['ns'] or []) != len(wns or []) or len(acc['name']) != len(wname):
                L.fail('%s: the PURL built from a combined name carries another namespace / name than the split' % ty)
            else:
                L.check('%s: built PURL carries the split namespace and name' % ty, b_and(bytes_eq_term(acc['ns'] or [], wns or []), bytes_eq_term(acc['name'], wname)))
    return 'split'


def h_inverse(L, ty, parts):
    """typed PURL under the side condition -> combined_name() -> constructor -> same namespace and name"""
    I = L.I
    s, _ = template_bytes(L, parts)
    L.assume_utf8(s)
    req = {'op': 'parse', 'T': 'Purl', 's': SymStr(s)}
    L.expect_native(req, {})
    try:
        r = from_str(I, 'Purl', s)
        if r.variant == 'Err':
            L.expect_native(req, {'err': err_name(r.fields[0])})
            return 'rejected'
        p = r.fields[0]
        acc = accessors(I, 'Purl', p)
        L.expect_native(req, {'ok': obs_expect(acc)})
        # side condition of the statement
        if ty in ('golang', 'npm'):
            if any(beq(I, x, 0x2F) for x in acc['name']):
                return 'outside-side-condition'
        elif ty == 'maven':
            if acc['ns'] is not None and any(beq(I, x, 0x3A) for x in acc['ns']):
                return 'outside-side-condition'
        else:
            if acc['ns'] is not None:
                return 'outside-side-condition'
        cn = I.call('GenericPurl::<package_type::PackageType>::combined_name', [Ref([p], 0)])
        cb = list(sbytes(cn))
        b = I.call('GenericPurl::<package_type::PackageType>::builder_with_combined_name::<&str>', [mk_type(I, 'Purl', list(ty.encode())), RStr(cb)])
    except Panic as e:
        L.fail('panic: %s' % e.msg)
        return 'panic'
    ns2, name2 = list(b.fields[1].fields[0].b), list(b.fields[1].fields[1].b)
    ns1 = acc['ns'] or []
    if len(ns1) != len(ns2) or len(name2) != len(acc['name']):
        L.fail('%s: combined_name() fed back through the constructor gives a different namespace / name' % ty)
        return 'inverse'
    L.check('%s: namespace reproduced' % ty, bytes_eq_term(ns1, ns2))
    L.check('%s: name reproduced' % ty, bytes_eq_term(acc['name'], name2))
    chk_rebuilt(L, ty, b, acc)
    return 'inverse'


def chk_rebuilt(L, ty, b2, acc):
    """the constructor's builder, built: the typed PURL it yields has the namespace and name of the PURL the combined name came from"""
    I = L.I
    r2 = b_build(I, 'Purl', b2)
    if r2.variant == 'Err':
        L.fail('%s: the builder made from combined_name() does not build (%s)' % (ty, err_name(r2.fields[0])))
        return
    a2 = accessors(I, 'Purl', r2.fields[0])
    n1, n2 = acc['ns'] or [], a2['ns'] or []
    if len(n1) != len(n2) or len(a2['name']) != len(acc['name']):
        L.fail('%s: combined_name() fed back and built gives a different namespace / name' % ty)
        return
    L.check('%s: namespace and name reproduced after build()' % ty, b_and(bytes_eq_term(n1, n2), bytes_eq_term(acc['name'], a2['name'])))


def h_inverse_built(L, ty, nn, nm):
    """the inverse direction for builder-made PURLs (namespaces a parser never produces, e.g. ending in '/')"""
    I = L.I
    ns = L.sym_bytes('a', nn)
    name = L.sym_bytes('b', nm)
    L.assume_utf8(ns)
    L.assume_utf8(name)
    req = {'op': 'build_typed', 'T': 'Purl', 'type': SymStr(list(ty.encode())), 'name': SymStr(name), 'steps': [['with_namespace', SymStr(ns)]]}
    L.expect_native(req, {})
    try:
        b = b_new(I, 'Purl', mk_type(I, 'Purl', list(ty.encode())), name)
        b = b_call(I, 'Purl', b, 'with_namespace', ns)
        r = b_build(I, 'Purl', b)
        if r.variant == 'Err':
            L.expect_native(req, {'err': err_name(r.fields[0])})
            return 'rejected'
        p = r.fields[0]
        acc = accessors(I, 'Purl', p)
        L.expect_native(req, {'ok': obs_expect(acc)})
        if ty in ('golang', 'npm'):
            if any(beq(I, x, 0x2F) for x in acc['name']):
                return 'outside-side-condition'
        elif ty == 'maven':
            if acc['ns'] is not None and any(beq(I, x, 0x3A) for x in acc['ns']):
                return 'outside-side-condition'
        elif acc['ns'] is not None:
            return 'outside-side-condition'
        cn = I.call('GenericPurl::<package_type::PackageType>::combined_name', [Ref([p], 0)])
        b2 = I.call('GenericPurl::<package_type::PackageType>::builder_with_combined_name::<&str>', [mk_type(I, 'Purl', list(ty.encode())), RStr(list(sbytes(cn)))])
    except Panic as e:
        L.fail('panic: %s' % e.msg)
        return 'panic'
    ns2, name2 = list(b2.fields[1].fields[0].b), list(b2.fields[1].fields[1].b)
    ns1 = acc['ns'] or []
    if len(ns1) != len(ns2) or len(name2) != len(acc['name']):
        L.fail('%s: combined_name() fed back through the constructor gives a different namespace / name' % ty)
        return 'inverse'
    L.check('%s: namespace reproduced' % ty, bytes_eq_term(ns1, ns2))
    L.check('%s: name reproduced' % ty, bytes_eq_term(acc['name'], name2))
    chk_rebuilt(L, ty, b2, acc)
    return 'inverse'


def queries(tier):
    deep = 1 if tier == 'thorough' else 0      # the former thorough bounds are the quick bounds now
    th = True
    qs = []
    for ty in PT_VARIANTS:
        for n in lens(6 + deep):
            qs.append(Query('split %s ⟦%d⟧' % (ty, n), h_split, {'ty': ty, 'n': n}, bound='combined name = every valid-UTF-8 string of %d bytes' % n))
        for n in lens(4 + deep, 1):
            qs.append(Query('inverse pkg:%s/⟦%d⟧' % (ty, n), h_inverse, {'ty': ty, 'parts': ['pkg:%s/' % ty, ('hole', 'h', n)]}, bound='typed PURL pkg:%s/⟦%d⟧' % (ty, n)))
            qs.append(Query('inverse pkg:%s/a/⟦%d⟧' % (ty, n), h_inverse, {'ty': ty, 'parts': ['pkg:%s/a/' % ty, ('hole', 'h', n)]}, bound='typed PURL pkg:%s/a/⟦%d⟧' % (ty, n)))
        for nn, nm in ((1, 1), (2, 1), (3, 1), (2, 2)) + (((3, 2), (4, 1)) if deep else ()):
            qs.append(Query('inverse built %s ns=⟦%d⟧ name=⟦%d⟧' % (ty, nn, nm), h_inverse_built, {'ty': ty, 'nn': nn, 'nm': nm}, bound='Purl::builder(%s, name of %d free bytes).with_namespace(%d free bytes)' % (ty, nm, nn)))
        qs.append(Query('inverse pkg:%s/⟦2⟧/⟦2⟧' % ty, h_inverse, {'ty': ty, 'parts': ['pkg:%s/' % ty, ('hole', 'h', 2), '/', ('hole', 'g', 2)]}, bound='namespace and name holes of 2 bytes'))
    return qs


def native_request(v):
    return v['case']


def confirm(v, resp):
    if 'panic' in resp:
        return 'panicked: %s' % resp['panic']
    req = v['case']
    if req['op'] == 'combined':
        ty = bytes.fromhex(req['type']).decode()
        s = bytes.fromhex(req['s'])
        if ty in ('golang', 'npm') and b'/' in s:
            ns, name = s.rsplit(b'/', 1)
        elif ty == 'maven' and b':' in s:
            ns, name = s.split(b':', 1)
        else:
            ns, name = b'', s
        got = (hx(resp['parts']['ns']), hx(resp['parts']['name']))
        if got != (ns, name):
            return '%s combined name %r splits into %r, the documented rule gives %r' % (ty, s, got, (ns, name))
        bt = resp.get('built', {})
        if 'ok' in bt and ty in ('cargo', 'gem', 'golang', 'npm', 'maven'):
            carried = (hx(bt['ok']['ns']) or b'', hx(bt['ok']['name']))
            if carried != (ns, name):
                return '%s: the PURL built from the combined name %r carries %r instead of %r' % (ty, s, carried, (ns, name))
        return None
    return None


def native_request(v):
    req = v['case']
    if req['op'] == 'parse':
        # evaluate the inverse direction natively through the `combined` op on the parsed PURL's own combined name
        return req
    return req


_confirm_split = confirm


def confirm(v, resp):
    req = v['case']
    if req['op'] == 'combined':
        return _confirm_split(v, resp)
    if 'panic' in resp:
        return 'panicked: %s' % resp['panic']
    if 'ok' not in resp or 'combined_again' not in resp:
        return None
    o, ca = resp['ok'], resp['combined_again']
    ty = hx(o['type']).decode()
    ns, name = hx(o['ns']) or b'', hx(o['name'])
    if ty in ('golang', 'npm'):
        if b'/' in name:
            return None
    elif ty == 'maven':
        if b':' in ns:
            return None
    elif ns:
        return None
    got = (hx(ca['ns']), hx(ca['name']))
    if got != (ns, name):
        return '%s: combined_name() %r fed back gives %r instead of %r' % (ty, hx(ca['combined']), got, (ns, name))
    bt = ca.get('built')
    if bt is not None:
        if 'err' in bt:
            return '%s: the builder made from combined_name() %r does not build (%s)' % (ty, hx(ca['combined']), bt['err'])
        if (hx(bt['ns']) or b'', hx(bt['name'])) != (ns, name):
            return '%s: combined_name() %r fed back and built gives %r instead of %r' % (ty, hx(ca['combined']), (hx(bt['ns']) or b'', hx(bt['name'])), (ns, name))
    return None


def finding_role(v, resp):
    return 'other'


def vacuity(results):
    probs = []
    tags = {}
    for r in results:
        for k, n in r['outcomes'].items():
            tags[k] = tags.get(k, 0) + n
    for w in ('split', 'inverse', 'outside-side-condition'):
        if not tags.get(w):
            probs.append('no leaf with outcome ' + w)
    return probs


LEVEL_TEXT = ('bounded symbolic model checking of the real MIR: builder_with_combined_name is interpreted for the seven types on every valid-UTF-8 string up to the '
              'stated length and the documented split (last "/", first ":", whole string; no namespace when absent or empty) is asserted by solver validity queries; the '
              'inverse direction runs parse -> combined_name() -> constructor under the stated side condition')
