"""C19 -- equality, hashing and ordering agree with the canonical string."""
from .std import *

ID = 'C19'
PROGS = ['default']


def make(L, T, spec, tag):
    """spec: ('parse', parts) | ('build', type, name, steps) -> (purl | None, request)"""
    I = L.I
    def ren(parts):
        return [((p[0], tag + p[1]) + tuple(p[2:])) if isinstance(p, tuple) else p for p in parts]
    if spec[0] == 'parse':
        s, _ = template_bytes(L, ren(spec[1]))
        L.assume_utf8(s)
        req = {'op': 'parse', 's': SymStr(s)}
        r = from_str(I, T, s)
        return (r.fields[0] if r.variant == 'Ok' else None), req
    via = 'ctor'
    if spec[0] == 'inplace':
        # a PURL with long components, turned into a builder, fields shrunk in place (they keep their allocation), built
        spec = ('build', 't', 'n', spec[1])
        via = 'parsed_long'
    _, ty, name, steps = spec
    def mat(x):
        if isinstance(x, tuple):
            b = L.sym_bytes(tag + x[1], x[2])
            L.assume_utf8(b)
            return b
        return list(x.encode())
    tyb, nm = mat(ty), mat(name)
    st = [(s[0],) + tuple(mat(a) for a in s[1:]) for s in steps]
    req = {'op': 'build', 'type': SymStr(tyb), 'name': SymStr(nm), 'via': via, 'steps': [[m] + [SymStr(a) for a in args] for m, *args in st]}
    b = b_parsed(I, T, tyb, True) if via == 'parsed_long' else b_new(I, T, mk_type(I, T, tyb), nm)
    for m, *args in st:
        b = b_call(I, T, b, m, *args)
        if m == 'with_qualifier':
            if b.variant == 'Err':
                return None, req
            b = b.fields[0]
    r = b_build(I, T, b)
    return (r.fields[0] if r.variant == 'Ok' else None), req


def relate(L, T, a, b, da, db):
    """all pairwise clauses of C19 for two values; returns the decided (eq, disp_eq)"""
    I = L.I
    eq = I.ctx.decide(purl_eq(I, T, a, b))
    deq = I.ctx.decide(bytes_eq_term(da, db)) if len(da) == len(db) else False
    if eq != deq:
        L.fail('two PURLs are %s but their canonical strings are %s' % ('equal' if eq else 'different', 'identical' if deq else 'different'))
    if eq:
        ha, hb = hash_stream(I, T, a), hash_stream(I, T, b)
        if len(ha) != len(hb):
            L.fail('equal PURLs feed different amounts of data to the hasher')
        else:
            terms = []
            for x, y in zip(ha, hb):
                if isinstance(x, tuple) or isinstance(y, tuple):
                    if x != y:
                        terms.append(False)
                elif isinstance(x, int) and isinstance(y, int):
                    if x != y:
                        terms.append(False)
                else:
                    terms.append(x == y)
            L.check('equal PURLs hash alike', b_and(*terms))
    ab = I.trait_call('Ord', 'cmp', purl_ty(T), [Ref([a], 0), Ref([b], 0)]).variant
    ba = I.trait_call('Ord', 'cmp', purl_ty(T), [Ref([b], 0), Ref([a], 0)]).variant
    flip = {'Less': 'Greater', 'Greater': 'Less', 'Equal': 'Equal'}
    if flip[ab] != ba:
        L.fail('ordering is not antisymmetric: cmp(a,b)=%s, cmp(b,a)=%s' % (ab, ba))
    if (ab == 'Equal') != eq:
        L.fail('cmp says %s but == says %s' % (ab, eq))
    pc = I.trait_call('PartialOrd', 'partial_cmp', purl_ty(T), [Ref([a], 0), Ref([b], 0)])
    if pc.variant != 'Some' or pc.fields[0].variant != ab:
        L.fail('partial_cmp disagrees with cmp')
    return eq, ab


def h_pair(L, T, A, B):
    I = L.I
    try:
        a, ra = make(L, T, A, 'a')
        b, rb = make(L, T, B, 'b')
        req = {'op': 'pair', 'T': KINDS[T][1], 'a': ra, 'b': rb}
        L.expect_native(req, {})
        if a is None or b is None:
            return 'not-both-valid'
        da, db = display(I, T, a), display(I, T, b)
        eq, ab = relate(L, T, a, b, da, db)
    except Panic as e:
        L.fail('panic: %s' % e.msg)
        return 'panic'
    L.expect_native(req, {'eq': eq, 'disp_eq': eq, 'cmp_ab': {'Less': -1, 'Equal': 0, 'Greater': 1}[ab], 'disp_a': SymStr(da), 'disp_b': SymStr(db)})
    return 'equal' if eq else 'different'


def h_pair_reparsed(L, T, A):
    """a == parse(a.to_string()): equal, same hash, Equal -- whatever way `a` was produced"""
    I = L.I
    try:
        a, ra = make(L, T, A, 'a')
        if a is None:
            return 'not-both-valid'
        da = display(I, T, a)
        rb = {'op': 'parse', 's': SymStr(da)}
        L.expect_native({'op': 'pair', 'T': KINDS[T][1], 'a': ra, 'b': rb}, {})
        r = from_str(I, T, da)
        if r.variant != 'Ok':
            return 'not-both-valid'
        b = r.fields[0]
        db = display(I, T, b)
        eq, ab = relate(L, T, a, b, da, db)
    except Panic as e:
        L.fail('panic: %s' % e.msg)
        return 'panic'
    L.expect_native({'op': 'pair', 'T': KINDS[T][1], 'a': ra, 'b': rb}, {'eq': eq, 'disp_eq': eq, 'cmp_ab': {'Less': -1, 'Equal': 0, 'Greater': 1}[ab]})
    return 'equal' if eq else 'different'


def h_triple(L, T, A, B, C):
    """transitivity of the order on three values"""
    I = L.I
    try:
        a, ra = make(L, T, A, 'a')
        b, rb = make(L, T, B, 'b')
        c, rc = make(L, T, C, 'c')
        L.expect_native({'op': 'pair', 'T': KINDS[T][1], 'a': ra, 'b': rb, 'c': rc}, {})
        if a is None or b is None or c is None:
            return 'not-all-valid'
        def cmp(x, y):
            return I.trait_call('Ord', 'cmp', purl_ty(T), [Ref([x], 0), Ref([y], 0)]).variant
        ab, bc, ac = cmp(a, b), cmp(b, c), cmp(a, c)
    except Panic as e:
        L.fail('panic: %s' % e.msg)
        return 'panic'
    le = lambda o: o in ('Less', 'Equal')
    if le(ab) and le(bc):
        if not le(ac) or (ac == 'Equal' and not (ab == 'Equal' and bc == 'Equal')):
            L.fail('ordering is not transitive: a%sb, b%sc but a%sc' % (ab, bc, ac))
    return 'ordered'


def queries(tier):
    # thorough = the quick inputs with full witness replay and the cvc5 cross-check (deeper bounds were never shown to finish within the cap)
    th = False
    qs = []
    H1, H2, H3 = ('hole', 'h', 1), ('hole', 'h', 2), ('hole', 'h', 3)
    P = lambda *parts: ('parse', list(parts))
    pairs = [
        # two spellings of one tuple / one differing character
        (P('pkg:t/n?k=', H2), P('pkg:t/n?k=', H2)),
        (P('pkg:t/', H2), P('pkg:t/', H2)),
        (P('pkg:t/', H3), P('pkg:t/', H1)),
        (P('pkg:t/n@', H2), P('pkg:t/n@', H2)),
        (P('pkg:t/n#', H2), P('pkg:t/n#', H2)),
        (P('pkg:', H1, '/n'), P('pkg:', H1, '/n')),
        (P('pkg:t/', H2, '/n'), P('pkg:t/', H2, '/n')),
        # a separator moved between adjacent fields
        (P('pkg:t/a', H1, 'b'), P('pkg:t/a', H1, 'b')),
        (P('pkg:t/n@', H1, '1'), P('pkg:t/n', H1, '1')),
        (P('pkg:t/n?k=a', H3), P('pkg:t/n?k=a&l=c')),
        (P('pkg:t/n?k=', H3), P('pkg:t/n?k=', H1, '&l=', H1)),
        (P('pkg:t/n?', H1, '=1&', ('hole', 'g', 1), '=2'), P('pkg:t/n?', H1, '=1&', ('hole', 'g', 1), '=2')),
        (P('pkg:t/n?k=v#', H2), P('pkg:t/n?k=v', H2)),
        (P('pkg:t/ns/n@1?k=v#', H2), P('pkg:t/ns/n@1?k=', H2, '#s')),
        (P('pkg:t/n?checksum=a:', H2, ',b:00'), P('pkg:t/n?checksum=B:00,A:', H2)),
        # fields of different lengths, one a prefix of the other: key, value, name, namespace, version, subpath
        (P('pkg:t/n?', H1, '=v'), P('pkg:t/n?', H2, '=v')),
        (P('pkg:t/n?a', H1, '=v&z=1'), P('pkg:t/n?a', H2, '=v&z=1')),
        (P('pkg:t/n?k=', H1), P('pkg:t/n?k=', H2)),
        (P('pkg:t/ns/', H1, '@1'), P('pkg:t/ns/', H2, '@1')),
        (P('pkg:t/', H1, '/n'), P('pkg:t/', H2, '/n')),
        (P('pkg:t/n@', H1, '?k=v'), P('pkg:t/n@', H2, '?k=v')),
        (P('pkg:t/n#', H1), P('pkg:t/n#', H2)),
        (P('pkg:', H1, '/n'), P('pkg:', H2, '/n')),
    ]
    for T in ('String', 'SmallString', 'Purl'):
        for i, (A, B) in enumerate(pairs):
            if T != 'String' and i not in (0, 1, 9, 10, 11, 15, 16):
                continue
            if T == 'Purl':
                sub = lambda sp: ('parse', [p.replace('pkg:t/', 'pkg:npm/') if isinstance(p, str) else p for p in sp[1]])
                A2, B2 = sub(A), sub(B)
            else:
                A2, B2 = A, B
            qs.append(Query('%s pair %s | %s' % (T, show_template(A2[1]), show_template(B2[1])), h_pair, {'T': T, 'A': A2, 'B': B2},
                            bound='two PURLs from independent holes: %s and %s' % (show_template(A2[1]), show_template(B2[1]))))
    # builder-made values for the Cow parameter and for values only a builder can produce
    for T in ('CowB', 'CowO', 'String'):
        bA = ('build', 't', 'n', [('with_qualifier', 'k', H2)])
        bB = ('build', ('hole', 't', 1), 'n', [('with_qualifier', 'K', H2)])
        qs.append(Query('%s pair built k=⟦2⟧ | T=⟦1⟧ K=⟦2⟧' % T, h_pair, {'T': T, 'A': bA, 'B': bB}, bound='builder-made values with free qualifier values and a free type letter'))
        bA = ('build', 't', H2, [('with_namespace', ('hole', 'n', 1))])
        bB = ('build', 't', H1, [('with_namespace', ('hole', 'n', 2))])
        qs.append(Query('%s pair built name/namespace boundary' % T, h_pair, {'T': T, 'A': bA, 'B': bB}, bound='name ⟦2⟧ + namespace ⟦1⟧ against name ⟦1⟧ + namespace ⟦2⟧'))
    # values only a builder can produce: a field differing in a leading / trailing separator or an empty segment
    for T in ('String', 'Purl'):
        ty = 't' if T == 'String' else 'golang'
        for meth in ('with_subpath', 'with_namespace', 'with_version'):
            for na, nb in ((2, 1), (2, 2), (3, 2)):
                bA = ('build', ty, 'n', [(meth, ('hole', 'h', na))])
                bB = ('build', ty, 'n', [(meth, ('hole', 'h', nb))])
                qs.append(Query('%s pair built %s ⟦%d⟧ | ⟦%d⟧' % (T, meth, na, nb), h_pair, {'T': T, 'A': bA, 'B': bB}, bound='two builder-made PURLs whose %s are free strings of %d and %d bytes' % (meth[5:], na, nb)))
    # a value whose fields were shrunk in place against the same value parsed fresh from its own canonical string
    for T in ('String', 'SmallString'):
        for steps in ([('truncate_qualifier', 'download_url', '20')], [('truncate_version', '5'), ('truncate_subpath', '3')], [('truncate_namespace', '10')]):
            qs.append(Query('%s pair edited in place %s | its canonical string parsed' % (T, steps), h_pair_reparsed, {'T': T, 'A': ('inplace', steps)},
                            bound='long components shrunk in place through the builder (%s), compared with parse(to_string())' % (steps,)))
    if True:
        X = P('pkg:t/', H1, '@', ('hole', 'v', 1))
        qs.append(Query('String triple name⟦1⟧@ver⟦1⟧', h_triple, {'T': 'String', 'A': X, 'B': X, 'C': X}, bound='three PURLs with free one-byte name and version'))
        # three values whose namespace may be present or absent (structure alphabet): transitivity across the two shapes
        Z = P('pkg:t/', ('hole', 'h', 3, b'/ab'))
        qs.append(Query('String triple ⟦3:/ab⟧ (namespace optional)', h_triple, {'T': 'String', 'A': Z, 'B': Z, 'C': Z}, bound='three PURLs pkg:t/⟦3:/ab⟧'))
        W = P('pkg:npm/', ('hole', 'h', 3, b'/ab'), '@', ('hole', 'v', 1, b'12'))
        qs.append(Query('Purl triple ⟦3:/ab⟧@⟦1:12⟧', h_triple, {'T': 'Purl', 'A': W, 'B': W, 'C': W}, bound='three typed PURLs pkg:npm/⟦3:/ab⟧@⟦1:12⟧'))
        Y = P('pkg:npm/n?', H1, '=', ('hole', 'v', 1))
        qs.append(Query('Purl triple key⟦1⟧=value⟦1⟧', h_triple, {'T': 'Purl', 'A': Y, 'B': Y, 'C': Y}, bound='three typed PURLs with free one-byte key and value'))
    return qs


def native_request(v):
    return v['case']


def confirm(v, resp):
    if 'panic' in resp:
        return 'panicked: %s' % resp['panic']
    if 'eq' not in resp:
        return None
    if resp['eq'] != resp['disp_eq']:
        return 'PURLs printing %r and %r: == is %s' % (hx(resp['disp_a']), hx(resp['disp_b']), resp['eq'])
    if resp['eq'] and not resp['hash_eq']:
        return 'equal PURLs with different hashes'
    if resp['cmp_ab'] != -resp['cmp_ba'] or (resp['cmp_ab'] == 0) != resp['eq'] or resp['pcmp_ab'] != resp['cmp_ab']:
        return 'ordering inconsistent: cmp_ab=%s cmp_ba=%s eq=%s partial=%s' % (resp['cmp_ab'], resp['cmp_ba'], resp['eq'], resp['pcmp_ab'])
    if 'cmp_bc' in resp:
        ab, bc, ac = resp['cmp_ab'], resp['cmp_bc'], resp['cmp_ac']
        if ab <= 0 and bc <= 0 and (ac > 0 or (ac == 0 and not (ab == 0 and bc == 0))):
            return 'ordering is not transitive: cmp(a,b)=%d, cmp(b,c)=%d but cmp(a,c)=%d' % (ab, bc, ac)
    return None


def finding_role(v, resp):
    return 'other'


def vacuity(results):
    probs = []
    tags = {}
    for r in results:
        for k, n in r['outcomes'].items():
            tags[k] = tags.get(k, 0) + n
    for w in ('equal', 'different', 'ordered'):
        if not tags.get(w):
            probs.append('no leaf with outcome ' + w)
    return probs


ASSUMPTIONS = ['SmartString::is_inline() is modelled by a high-water mark per buffer; short-but-boxed values arise only from the in-place truncate steps listed in the queries']
LEVEL_TEXT = ('bounded symbolic model checking of the real MIR: two (three) PURLs are produced from independent holes on one path -- spellings of one tuple, '
              'values one character apart, a separator moved between adjacent fields, qualifier values with & and = -- and the derived ==, Hash (recorded stream), '
              'cmp and partial_cmp are interpreted; `== iff identical canonical strings`, hash agreement, antisymmetry, `Equal iff ==` and transitivity are decided by the solver')
