"""C03 -- the canonical string has exactly the documented shape and escaping."""
from .std import *

ID = 'C03'
PROGS = ['default']


def chk(L, T, p, acc, disp):
    chk_shape(L, T, p, acc, disp)


def queries(tier):
    return parse_family(tier, [chk]) + build_family(tier, [chk], kinds=('String', 'Purl', 'SmallString', 'CowB'))


def native_request(v):
    return v['case']


def confirm(v, resp):
    if 'panic' in resp:
        return 'panicked: %s' % resp['panic']
    if 'ok' not in resp:
        return None
    return concrete_shape_violation(resp['ok'])


def finding_role(v, resp):
    return 'other'


vacuity = std_vacuity
LEVEL_TEXT = ('bounded symbolic model checking of the real MIR: every feasible path of from_str/build -> accessors -> Display over the listed '
              'templates; on each accepted/built leaf an independent renderer written from the property text is evaluated over the same '
              'symbolic bytes and `Display == rendering` and `output is printable ASCII` are solver validity queries')
