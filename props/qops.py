"""Operations of the qualifier collection from an arbitrary invariant-satisfying state, with a reference map."""
from .std import *
from . import ref as R_

KEY_ANY = tt((0x30, 0x39), (0x41, 0x5A), (0x61, 0x7A), b'._-')

OPS = ['insert', 'get', 'contains_key', 'get_mut_set', 'remove', 'entry', 'entry_or_insert', 'entry_or_insert_with',
       'entry_and_modify', 'occ_insert', 'occ_get_mut_set', 'occ_into_mut_set', 'vac_insert', 'occ_remove', 'occ_remove_entry', 'retain_nonempty', 'retain_key_ne',
       'retain_mut_append', 'iter_mut_append', 'clear', 'index', 'index_set', 'reserve',
       'insert_repository_url', 'get_repository_url', 'contains_repository_url', 'remove_repository_url']


# user-written typed qualifiers with these declared keys (the oracle defines one Rust type per key): upper-case, lower-case, mixed, invalid
MQ_KEYS = {'K': b'K', 'k': b'k', 'Ab': b'Ab', 'Bad': b'a b'}
MQ_OPS = ['typed%s_%s' % (t, o) for t in MQ_KEYS for o in ('insert', 'get', 'contains', 'remove')]
OPS += MQ_OPS


def mk_quals(items):
    return Adt('Qualifiers', None, [VecVal([Tup(Adt('QualifierKey', None, [StringBuf(k)]), StringBuf(v)) for k, v in items])])


def content(q):
    return [(list(e.fields[0].fields[0].b), list(e.fields[1].b)) for e in q.fields[0].items]


def pre_state(L, nkeys, klen, vlen):
    """arbitrary collection satisfying the invariant: valid lower-case keys, strictly ascending"""
    items = []
    prev = None
    for i in range(nkeys):
        k = L.sym_bytes('k%d_' % i, klen[i] if isinstance(klen, (list, tuple)) else klen)
        v = L.sym_bytes('v%d_' % i, vlen)
        for x in k:
            L.assume(mask_term(x, KEY_OK))
        L.assume_utf8(v)
        if prev is not None:
            from mirsym.models import seq_cmp
            if seq_cmp(L.I, prev, k) >= 0:
                raise Discard()
        prev = k
        items.append((k, v))
    return items


def mask_term(x, table):
    from mirsym.ctx import mask_constraint
    return mask_constraint(x, table)


def key_valid(L, k):
    return len(k) > 0 and all(in_set(L.I, x, KEY_ANY) for x in k)


def ref_find(L, items, lk):
    for i, (k, v) in enumerate(items):
        if R_.eq(L, k, lk):
            return i
    return None


def ref_insert_pos(L, items, lk):
    from mirsym.models import seq_cmp
    for i, (k, v) in enumerate(items):
        if seq_cmp(L.I, lk, k) < 0:
            return i
    return len(items)


def opt_bytes(v):
    return None if v.variant == 'None' else list(sbytes(v.fields[0]))


def run_op(L, q, op, key, val):
    """run one public operation on the interpreted collection; returns an observable (python structure)"""
    I = L.I
    qr = Ref([q], 0)
    K = RStr(key)
    V = RStr(val)
    if op == 'insert':
        r = I.call('Qualifiers::insert::<&str, &str>', [qr, K, V])
        return ('ok', list(sbytes(r.fields[0]))) if r.variant == 'Ok' else ('err', err_name(r.fields[0]))
    if op == 'get':
        return opt_bytes(I.call('Qualifiers::get::<&str>', [qr, K]))
    if op == 'contains_key':
        return I.call('Qualifiers::contains_key::<&str>', [qr, K])
    if op == 'get_mut_set':
        r = I.call('Qualifiers::get_mut::<&str>', [qr, K])
        if r.variant == 'None':
            return None
        old = list(sbytes(r.fields[0]))
        r.fields[0].set(StringBuf(val))
        return old
    if op == 'remove':
        return opt_bytes(I.call('Qualifiers::remove::<&str>', [qr, K]))
    if op in ('entry', 'entry_or_insert', 'entry_or_insert_with', 'entry_and_modify', 'occ_insert', 'occ_remove', 'occ_remove_entry',
              'occ_get_mut_set', 'occ_into_mut_set', 'vac_insert'):
        r = I.call('Qualifiers::entry::<&str>', [qr, K])
        if r.variant == 'Err':
            return ('err', err_name(r.fields[0]))
        e = r.fields[0]
        ET = "qualifiers::Entry::<'_, &str>"
        if op == 'entry':
            if e.variant == 'Occupied':
                return ('occupied', list(sbytes(I.call("qualifiers::OccupiedEntry::<'_, &str>::get", [Ref(e.fields, 0)]))))
            return 'vacant'
        if op == 'entry_or_insert':
            return ('ok', list(sbytes(I.call(ET + '::or_insert::<&str>', [e, V]))))
        if op == 'entry_or_insert_with':
            f = lambda I_: V
            return ('ok', list(sbytes(I.call(ET + '::or_insert_with::<{closure@harness:1:1: 1:2}, &str>', [e, f]))))
        if op == 'entry_and_modify':
            def f(I_, s):
                s.get().b.extend(val)
                return UNIT()
            e2 = I.call(ET + '::and_modify::<{closure@harness:2:1: 2:2}>', [e, f])
            if e2.variant == 'Occupied':
                return ('occupied', list(sbytes(I.call("qualifiers::OccupiedEntry::<'_, &str>::get", [Ref(e2.fields, 0)]))))
            return 'vacant'
        if op == 'vac_insert':
            if e.variant == 'Occupied':
                return 'occupied'
            return ('ok', list(sbytes(I.call("qualifiers::VacantEntry::<'_, &str>::insert::<&str>", [e.fields[0], V]))))
        if e.variant == 'Vacant':
            return 'vacant'
        o = e.fields[0]
        OT = "qualifiers::OccupiedEntry::<'_, &str>"
        if op == 'occ_insert':
            return ('old', list(sbytes(I.call(OT + '::insert::<&str>', [Ref([o], 0), V]))))
        if op in ('occ_get_mut_set', 'occ_into_mut_set'):
            r = I.call(OT + '::get_mut', [Ref([o], 0)]) if op == 'occ_get_mut_set' else I.call(OT + '::into_mut', [o])
            old = list(sbytes(r))
            r.set(StringBuf(val))
            return ('old', old)
        if op == 'occ_remove':
            return ('old', list(sbytes(I.call(OT + '::remove', [o]))))
        if op == 'occ_remove_entry':
            t = I.call(OT + '::remove_entry', [o])
            return ('old', [list(sbytes(t.fields[0])), list(sbytes(t.fields[1]))])
    if op == 'retain_nonempty':
        f = lambda I_, k, v: len(sbytes(v)) > 0
        I.call('Qualifiers::retain::<{closure@harness:3:1: 3:2}>', [qr, f])
        return None
    if op == 'retain_key_ne':
        def f(I_, k, v):
            # `qk != &key` through QualifierKey's own PartialEq<S>
            eq = I_.call('<qualifiers::QualifierKey as PartialEq<&str>>::eq', [k, Ref([K], 0)])
            return not I_.ctx.decide(eq)
        I.call('Qualifiers::retain::<{closure@harness:4:1: 4:2}>', [qr, f])
        return None
    if op == 'retain_mut_append':
        def f(I_, k, v):
            v.get().b.extend(val)
            return True
        I.call('Qualifiers::retain_mut::<{closure@harness:5:1: 5:2}>', [qr, f])
        return None
    if op == 'iter_mut_append':
        it = I.call('Qualifiers::iter_mut', [qr])
        while True:
            nx = I.call("<qualifiers::IterMut<'_> as Iterator>::next", [Ref([it], 0)])
            if nx.variant == 'None':
                break
            nx.fields[0].fields[1].get().b.extend(val)
        return None
    if op == 'clear':
        I.call('Qualifiers::clear', [qr])
        return None
    if op == 'index':
        r = I.call('<qualifiers::Qualifiers as Index<&str>>::index', [qr, K])
        return list(sbytes(r))
    if op == 'index_set':
        r = I.call('<qualifiers::Qualifiers as IndexMut<&str>>::index_mut', [qr, K])
        r.set(StringBuf(val))
        return None
    if op == 'reserve':
        I.call('Qualifiers::reserve', [qr, 3])
        cap = I.call('Qualifiers::capacity', [qr])
        ln = I.call('Qualifiers::len', [qr])
        return cap >= ln
    if op in MQ_OPS:
        tag, o = op[5:].split('_')
        I.mq_key = MQ_KEYS[tag]
        if o == 'insert':
            I.call('Qualifiers::insert_typed::<ModelQual>', [qr, Adt('ModelQual', None, [V])])
            return None
        if o == 'get':
            r = I.call("Qualifiers::get_typed::<'_, ModelQual>", [qr])
            return None if r.variant == 'None' else list(sbytes(r.fields[0].fields[0]))
        if o == 'contains':
            return I.call('Qualifiers::contains_typed::<ModelQual>', [qr])
        I.call('Qualifiers::remove_typed::<ModelQual>', [qr])
        return None
    if op == 'insert_repository_url':
        I.call("Qualifiers::insert_typed::<RepositoryUrl<'_>>", [qr, Adt('RepositoryUrl', None, [V])])
        return None
    if op == 'get_repository_url':
        r = I.call("Qualifiers::get_typed::<'_, RepositoryUrl<'_>>", [qr])
        return opt_bytes(r)
    if op == 'contains_repository_url':
        return I.call("Qualifiers::contains_typed::<RepositoryUrl<'_>>", [qr])
    if op == 'remove_repository_url':
        I.call("Qualifiers::remove_typed::<RepositoryUrl<'_>>", [qr])
        return None
    raise ValueError(op)


def ref_op(L, items, op, key, val):
    """the same operation on the reference map (list of (key, value) sorted by key); returns (observable, new items)"""
    items = [(list(k), list(v)) for k, v in items]
    if op in MQ_OPS:
        tag, o = op[5:].split('_')
        key = list(MQ_KEYS[tag])
        if o == 'insert' and not key_valid(L, key):
            return 'PANIC', items          # the documented panic: a typed qualifier whose declared key is invalid
        op = {'insert': 'insert', 'get': 'get', 'contains': 'contains_key', 'remove': 'remove'}[o]
        typed = True
    elif op in ('insert_repository_url', 'get_repository_url', 'contains_repository_url', 'remove_repository_url'):
        key = list(b'repository_url')
        op = {'insert_repository_url': 'insert', 'get_repository_url': 'get', 'contains_repository_url': 'contains_key',
              'remove_repository_url': 'remove'}[op]
        typed = True
    else:
        typed = False
    if op in ('retain_nonempty', 'retain_mut_append', 'iter_mut_append', 'clear', 'reserve'):
        if op == 'retain_nonempty':
            return None, [(k, v) for k, v in items if len(v) > 0]
        if op in ('retain_mut_append', 'iter_mut_append'):
            return None, [(k, v + list(val)) for k, v in items]
        if op == 'clear':
            return None, []
        return True, items
    valid = key_valid(L, key)
    lk = R_.lower(L, key) if valid else None
    idx = ref_find(L, items, lk) if valid else None
    if op == 'retain_key_ne':
        # QualifierKey == &str compares case-insensitively (the harness only passes valid keys here)
        if not valid:
            raise Discard()
        return None, [(k, v) for k, v in items if not R_.eq(L, k, lk)]
    if op == 'insert':
        if not valid:
            return ('err', 'InvalidQualifier'), items
        if idx is not None:
            items[idx] = (items[idx][0], list(val))
        else:
            items.insert(ref_insert_pos(L, items, lk), (lk, list(val)))
        return (None if typed else ('ok', list(val))), items
    if op == 'get':
        return (items[idx][1] if idx is not None else None), items
    if op == 'contains_key':
        return idx is not None, items
    if op == 'get_mut_set':
        if idx is None:
            return None, items
        old = items[idx][1]
        items[idx] = (items[idx][0], list(val))
        return old, items
    if op == 'remove':
        if idx is None:
            return None, items
        old = items.pop(idx)[1]
        return (None if typed else old), items
    if op == 'index':
        if idx is None:
            return 'PANIC', items
        return items[idx][1], items
    if op == 'index_set':
        if idx is None:
            return 'PANIC', items
        items[idx] = (items[idx][0], list(val))
        return None, items
    # entry family
    if not valid:
        return ('err', 'InvalidQualifier'), items
    if op == 'entry':
        return (('occupied', items[idx][1]) if idx is not None else 'vacant'), items
    if op in ('entry_or_insert', 'entry_or_insert_with'):
        if idx is None:
            items.insert(ref_insert_pos(L, items, lk), (lk, list(val)))
            return ('ok', list(val)), items
        return ('ok', items[idx][1]), items
    if op == 'entry_and_modify':
        if idx is None:
            return 'vacant', items
        items[idx] = (items[idx][0], items[idx][1] + list(val))
        return ('occupied', items[idx][1]), items
    if op == 'vac_insert':
        if idx is not None:
            return 'occupied', items
        items.insert(ref_insert_pos(L, items, lk), (lk, list(val)))
        return ('ok', list(val)), items
    if idx is None:
        return 'vacant', items
    if op in ('occ_insert', 'occ_get_mut_set', 'occ_into_mut_set'):
        old = items[idx][1]
        items[idx] = (items[idx][0], list(val))
        return ('old', old), items
    if op == 'occ_remove':
        return ('old', items.pop(idx)[1]), items
    if op == 'occ_remove_entry':
        k, v = items.pop(idx)
        return ('old', [k, v]), items
    raise ValueError(op)


def obs_term_eq(a, b):
    """Boolean term / bool: two observables (nested python structures with byte lists) are equal"""
    if isinstance(a, list) and isinstance(b, list) and (not a or not isinstance(a[0], list)) and (not b or not isinstance(b[0], list)):
        return bytes_eq_term(a, b)
    if isinstance(a, (list, tuple)) and isinstance(b, (list, tuple)):
        if len(a) != len(b):
            return False
        return b_and(*[obs_term_eq(x, y) for x, y in zip(a, b)])
    return a == b


def to_native(o):
    """observable -> the oracle's JSON shape (with SymStr leaves)"""
    if o is None or isinstance(o, bool):
        return o
    if isinstance(o, str):
        return o
    if isinstance(o, list):
        if o and isinstance(o[0], list):
            return [SymStr(x) for x in o]
        return SymStr(o)
    if isinstance(o, tuple):
        tag, v = o
        if tag == 'err':
            return {'err': v}
        if tag == 'ok':
            return {'ok': SymStr(v)}
        if tag == 'occupied':
            return {'occupied': SymStr(v)}
        if tag == 'old':
            return {'old': to_native(v)}
    raise ValueError(o)
