"""C16 -- the serde form is exactly the string form."""
import json as _json
from .std import *
from mirsym.models import ModelSerializer, ModelDeserializer, DeError

ID = 'C16'
PROGS = ['serde']
NATIVE = 'serde'


def json_string(b):
    """JSON text (bytes, possibly symbolic) of a string made of bytes that need no JSON escaping; None if escaping would be needed"""
    return [0x22] + list(b) + [0x22]


def h_ser(L, T, parts):
    """Serialize: exactly one collect_str whose text is Display"""
    I = L.I
    s, _ = template_bytes(L, parts)
    L.assume_utf8(s)
    for x in s:
        if not isinstance(x, int):
            L.assume(z3.And(x != 0x22, x != 0x5C, z3.UGE(x, 0x20)))     # keep the JSON framing of the native replay trivial
    req = {'op': 'serde', 'T': KINDS[T][1], 'json': SymStr(json_string(s)), 'after_failure': True}
    L.expect_native(req, {})
    try:
        r = from_str(I, T, s)
        if r.variant == 'Err':
            L.expect_native(req, {'de': {}})
            return 'rejected'
        p = r.fields[0]
        disp = display(I, T, p)
        # "any PURL", whatever happened before on this thread: a serializer that refuses the value first, then the one that records
        bad = ModelSerializer(fail=True)
        r0 = I.call('<GenericPurl<%s> as Serialize>::serialize::<ModelSerializer>' % tytext(T), [Ref([p], 0), bad])
        if r0.variant != 'Err':
            L.fail('an error of the serializer is not returned')
        ser = ModelSerializer()
        res = I.call('<GenericPurl<%s> as Serialize>::serialize::<ModelSerializer>' % tytext(T), [Ref([p], 0), ser])
    except Panic as e:
        L.fail('panic: %s' % e.msg)
        return 'panic'
    if res.variant != 'Ok' or len(ser.calls) != 1 or ser.calls[0][0] != 'str':
        L.fail('serialize does not emit exactly one string value')
        return 'accepted'
    txt = ser.calls[0][1]
    if len(txt) != len(disp):
        L.fail('serialized string differs in length from to_string()')
        return 'accepted'
    L.check('serialized string == to_string()', bytes_eq_term(txt, disp))
    # (the JSON text of the serialised value may need JSON escapes, e.g. for a decoded backslash: the oracle compares it with
    #  serde_json's rendering of to_string() itself)
    L.expect_native(req, {'de': {'ok': {'disp': SymStr(disp)}}, 'ser_is_display': True, 'same_as_from_str': True})
    return 'accepted'


def h_de(L, T, parts, kind):
    """Deserialize of a string value succeeds exactly when from_str does and yields an equal PURL"""
    I = L.I
    s, _ = template_bytes(L, parts)
    L.assume_utf8(s)
    # replayed natively through serde::de::value::{Str, BorrowedStr, String}Deserializer, i.e. the same visitor entry point
    req = {'op': 'serde', 'T': KINDS[T][1], 'value': {'kind': kind, 'payload': SymStr(s)}}
    L.expect_native(req, {})
    try:
        direct = from_str(I, T, s)
        de = ModelDeserializer(kind, list(s))
        r = I.call('<GenericPurl<%s> as Deserialize<\'_>>::deserialize::<ModelDeserializer>' % tytext(T), [de])
    except Panic as e:
        L.fail('panic: %s' % e.msg)
        return 'panic'
    if direct.variant == 'Err':
        L.expect_native(req, {'de': {}, 'from_str_ok': False})
        if r.variant != 'Err':
            L.fail('deserialising a string succeeds although from_str refuses it')
        return 'rejected'
    if r.variant != 'Ok':
        L.fail('deserialising a string fails although from_str accepts it')
        return 'accepted'
    p, q = direct.fields[0], r.fields[0]
    if not I.ctx.decide(purl_eq(I, T, p, q)):
        L.fail('deserialised PURL differs from from_str of the same string')
    d = display(I, T, q)
    L.expect_native(req, {'de': {'ok': {'disp': SymStr(d)}}, 'same_as_from_str': True})
    return 'accepted'


def h_in_place(L, T, parts, existing):
    """Deserialize::deserialize_in_place over an existing PURL, when the crate overrides it: same outcome as deserialize, and the place
    holds exactly the parsed value afterwards (serde's default does `*place = deserialize(d)?`, which needs no check)"""
    I = L.I
    imp = None
    for im in I.prog.impls:
        if im.trait is not None and im.trait[1] == 'Deserialize' and 'deserialize_in_place' in im.methods and im.self_ty[1].endswith('GenericPurl'):
            imp = im
    if imp is None:
        return 'not-overridden'
    s, _ = template_bytes(L, parts)
    L.assume_utf8(s)
    req = {'op': 'serde', 'T': KINDS[T][1], 'value': {'kind': 'str', 'payload': SymStr(s)}, 'in_place': SymStr(list(existing.encode()))}
    L.expect_native(req, {})
    try:
        direct = from_str(I, T, s)
        ex = from_str(I, T, list(existing.encode()))
        cell = [ex.fields[0]]
        de = ModelDeserializer('str', list(s))
        r = I.call('<GenericPurl<%s> as Deserialize<\'_>>::deserialize_in_place::<ModelDeserializer>' % tytext(T), [de, Ref(cell, 0)])
    except Panic as e:
        L.fail('panic: %s' % e.msg)
        return 'panic'
    if direct.variant == 'Err':
        if r.variant != 'Err':
            L.fail('deserialising in place succeeds although from_str refuses the string')
        return 'rejected'
    if r.variant != 'Ok':
        L.fail('deserialising in place fails although from_str accepts the string')
        return 'accepted'
    if not I.ctx.decide(purl_eq(I, T, direct.fields[0], cell[0])):
        L.fail('after deserialising in place the value differs from from_str of the same string')
    return 'accepted'


def h_nonstring(L, T, kind):
    I = L.I
    js = {'u64': b'12', 'i64': b'-3', 'bool': b'true', 'unit': b'null', 'seq': b'["pkg:t/n"]', 'map': b'{"a":1}', 'f64': b'1.5',
          'bytes': b'[112,107,103,58,110,112,109,47,110]'}[kind]
    req = {'op': 'serde', 'T': KINDS[T][1], 'json': SymStr(list(js))}
    L.expect_native(req, {'is_json_string': False})
    if kind == 'bytes':
        req = {'op': 'serde', 'T': KINDS[T][1], 'value': {'kind': 'bytes', 'payload': SymStr(list(b'pkg:npm/n'))}}
        L.expect_native(req, {'de': {}, 'value_kind': 'bytes'})
    de = ModelDeserializer(kind, list(b'pkg:npm/n') if kind == 'bytes' else None)
    r = I.call('<GenericPurl<%s> as Deserialize<\'_>>::deserialize::<ModelDeserializer>' % tytext(T), [de])
    if r.variant != 'Err':
        L.fail('a %s value deserialises to a PURL' % kind)
    return 'refused'


def queries(tier):
    deep = 1 if tier == 'thorough' else 0      # the former thorough bounds are the quick bounds now
    th = True
    qs = []
    for T in ('String', 'Purl'):
        ty = 't' if T == 'String' else 'npm'
        fam = []
        for n in lens(4 + deep):
            fam.append(['pkg:', ('hole', 'h', n)])
        for sl in SLOTS_MIN + SLOTS_FULL[:6]:
            for n in lens(3 + deep, 1):
                fam.append([p.replace('pkg:t/', 'pkg:%s/' % ty) if isinstance(p, str) else p for p in fill(sl, n)])
        fam.append(['pkg:%s/n?checksum=' % ty, ('hole', 'h', 3)])
        fam.append([('hole', 'h', 4)])
        for parts in fam:
            qs.append(Query('%s serialize %s' % (T, show_template(parts)), h_ser, {'T': T, 'parts': parts}, bound='PURL parsed from %s' % show_template(parts), prog='serde'))
            for kind in ('str', 'borrowed_str', 'string'):
                if kind != 'str' and len(parts) > 1 and parts[0] != 'pkg:':
                    continue
                qs.append(Query('%s deserialize(%s) %s' % (T, kind, show_template(parts)), h_de, {'T': T, 'parts': parts, 'kind': kind},
                                bound='string value %s handed to the visitor as %s' % (show_template(parts), kind), prog='serde'))
        for parts in (['pkg:%s/' % ty, ('hole', 'h', 3)], ['pkg:', ('hole', 'h', 4)], ['pkg:%s/n' % ty, ('hole', 'h', 3)]):
            qs.append(Query('%s deserialize_in_place %s' % (T, show_template(parts)), h_in_place, {'T': T, 'parts': parts, 'existing': 'pkg:%s/ns/old@1?k=v#s' % ty},
                            bound='string value %s deserialised over the existing value pkg:%s/ns/old@1?k=v#s (only if the crate overrides deserialize_in_place)' % (show_template(parts), ty), prog='serde'))
        for kind in ('u64', 'i64', 'bool', 'unit', 'seq', 'map', 'f64', 'bytes'):
            qs.append(Query('%s deserialize non-string %s' % (T, kind), h_nonstring, {'T': T, 'kind': kind}, bound='a %s value of the serde data model' % kind, prog='serde'))
    return qs


def native_request(v):
    return v['case']


def confirm(v, resp):
    if 'panic' in resp:
        return 'panicked: %s' % resp['panic']
    de = resp.get('de', {})
    if resp.get('value_kind') == 'in_place':
        if 'ok' in de:
            if not resp.get('from_str_ok'):
                return 'deserialising in place succeeds although from_str refuses the string'
            return None if resp.get('same_as_from_str') else 'after deserialising in place over an existing value the PURL differs from from_str of the same string'
        return 'deserialising in place fails (%s) although from_str accepts the string' % de.get('err') if resp.get('from_str_ok') else None
    if resp.get('value_kind') == 'bytes':
        return 'a bytes value deserialises to a PURL' if 'ok' in de else None
    if 'ok' in de:
        if resp.get('is_json_string') is False:
            return 'a non-string JSON value deserialises to a PURL'
        if 'ser' in resp and not resp.get('ser_is_display'):
            return 'serde_json::to_string is %r, not the JSON string of to_string()' % hx(resp['ser'])
        if not resp.get('same_as_from_str'):
            return 'deserialised PURL differs from from_str of the same string'
        return None
    if resp.get('from_str_ok'):
        return 'deserialising fails (%s) although from_str accepts the string' % de.get('err')
    return None


def finding_role(v, resp):
    return 'other'


def vacuity(results):
    probs = []
    tags = {}
    for r in results:
        for k, n in r['outcomes'].items():
            tags[k] = tags.get(k, 0) + n
    for w in ('accepted', 'rejected', 'refused'):
        if not tags.get(w):
            probs.append('no leaf with outcome ' + w)
    return probs


LEVEL_TEXT = ('bounded symbolic model checking of the serde-feature MIR: Serialize is interpreted against a recording serializer (exactly one collect_str whose text must equal '
              'the interpreted Display -- a solver validity query); Deserialize is interpreted against a one-value deserializer of the serde data model that drives the crate\'s visitor '
              'as serde documents (str -> visit_str, borrowed str -> visit_borrowed_str, owned string -> visit_string, the latter two defaulting to visit_str; every other kind -> invalid_type) and must agree with the interpreted from_str on the same symbolic string; '
              'witnesses are replayed natively through serde_json (Serialize, and Deserialize of JSON text) and through serde::de::value deserializers (one per visitor entry point)')
ASSUMPTIONS = ['the claim is about the serde data model; serde_json\'s own framing is only exercised by native replay (strings needing JSON escapes are excluded from the templates)',
               'a Deserializer calls the visit_* method matching the value it holds and visit_borrowed_str / visit_string default to visit_str (serde\'s documented contract)']
