"""Generators of PURL values (parser, builder) and reusable per-value obligations."""
from .common import *
from mirsym.models import in_set, beq, in_range, percent_decode, str_eq, ascii_lower_byte

PT_VARIANTS = {'cargo': 'Cargo', 'gem': 'Gem', 'golang': 'Golang', 'maven': 'Maven', 'npm': 'Npm', 'nuget': 'NuGet', 'pypi': 'PyPI'}


def tt(*items):
    """256-bit table from ints / (lo, hi) pairs / bytes"""
    m = 0
    for it in items:
        if isinstance(it, int):
            m |= 1 << it
        elif isinstance(it, tuple):
            for x in range(it[0], it[1] + 1):
                m |= 1 << x
        else:
            for x in it:
                m |= 1 << x
    return m


# ------------------------------------------------------------------------------------------ generators


def gen_parse(L, T, parts, req_extra=None):
    """parse a template; returns (p | None, outcome tag, input bytes).  Registers the native expectation."""
    I = L.I
    s, holes = template_bytes(L, parts)
    L.assume_utf8(s)
    req = {'op': 'parse', 'T': KINDS[T][1], 's': SymStr(s)}
    L.holes = holes
    L.input = s
    L.expect_native(req, {})
    r = from_str(I, T, s)
    if r.variant == 'Err':
        name = err_name(r.fields[0])
        L.expect_native(req, {'err': name})
        return None, 'rejected:' + name, s
    p = r.fields[0]
    return p, 'accepted', s


def mk_type(I, T, tb):
    """a value of the type parameter from the bytes of a type string"""
    if T in ('String', 'SmallString'):
        return StringBuf(tb)
    if T == 'CowB':
        return Adt('Cow', 'Borrowed', [RStr(tb)])
    if T == 'CowO':
        return Adt('Cow', 'Owned', [StringBuf(tb)])
    if T == 'Purl':
        name = bytes(tb).decode()
        return Adt('PackageType', PT_VARIANTS[name], [])
    raise ValueError(T)


def b_new(I, T, ty, name, via='ctor'):
    """a builder through GenericPurlBuilder::new (default) or GenericPurl::builder"""
    if via == 'builder':
        return I.call('GenericPurl::<%s>::builder::<&str>' % tytext(T), [ty, RStr(name)])
    return I.call('builder::GenericPurlBuilder::<%s>::new::<&str>' % tytext(T), [ty, RStr(name)])


PARSED_LONG = '/github.com/some-org/some-repo/n@1.0.0-beta.1+build.20240101?download_url=https://example.org/a.tgz%3Fsig%3D0123456789abcdef#src/main/java/com/example'
PARSED_BASE = '/ns/n@1?a=1&c=3#s'
PARSED_STEPS = [('with_namespace', 'ns'), ('with_version', '1'), ('with_qualifier', 'a', '1'), ('with_qualifier', 'c', '3'), ('with_subpath', 's')]


def b_parsed(I, T, type_bytes, long_=False):
    """a builder obtained from a parsed PURL (`pkg:<type>/ns/n@1?a=1&c=3#s`).into_builder(): the entry point of edit-and-rebuild"""
    r = from_str(I, T, list(b'pkg:') + list(type_bytes) + list((PARSED_LONG if long_ else PARSED_BASE).encode()))
    if r.variant != 'Ok':
        raise Unsupported('the base PURL of a parsed-then-edited script does not parse')
    return I.call('GenericPurl::<%s>::into_builder' % tytext(T), [r.fields[0]])


def p_new(I, T, ty, name):
    """GenericPurl::new: the one-call form of builder(..).build()"""
    return I.call('GenericPurl::<%s>::new::<&str>' % tytext(T), [ty, RStr(name)])


def b_call(I, T, b, method, *args):
    t = tytext(T)
    if method in ('with_namespace', 'with_name', 'with_version', 'with_subpath'):
        return I.call('builder::GenericPurlBuilder::<%s>::%s::<&str>' % (t, method), [b, RStr(args[0])])
    if method in ('without_namespace', 'without_version', 'without_subpath', 'without_qualifiers'):
        return I.call('builder::GenericPurlBuilder::<%s>::%s' % (t, method), [b])
    if method == 'with_qualifier':
        return I.call('builder::GenericPurlBuilder::<%s>::with_qualifier::<&str, &str>' % t, [b, RStr(args[0]), RStr(args[1])])
    if method == 'without_qualifier':
        return I.call('builder::GenericPurlBuilder::<%s>::without_qualifier::<&str>' % t, [b, RStr(args[0])])
    if method == 'with_package_type':
        return I.call('builder::GenericPurlBuilder::<%s>::with_package_type' % t, [b, args[0]])
    if method in ('set_namespace', 'set_name', 'set_version', 'set_subpath'):
        # direct edit of the public `parts`
        b.fields[1].fields[{'set_namespace': 0, 'set_name': 1, 'set_version': 2, 'set_subpath': 4}[method]] = StringBuf(args[0])
        return b
    if method in ('truncate_namespace', 'truncate_version', 'truncate_subpath'):
        # shrink a field of the public `parts` in place (the buffer keeps its allocation)
        fld = b.fields[1].fields[{'truncate_namespace': 0, 'truncate_version': 2, 'truncate_subpath': 4}[method]]
        n = args[0] if isinstance(args[0], int) else int(bytes(args[0]).decode())
        del fld.b[n:]
        return b
    if method == 'truncate_qualifier':
        # shrink a qualifier value in place through Qualifiers::get_mut
        n = args[1] if isinstance(args[1], int) else int(bytes(args[1]).decode())
        r = I.call('Qualifiers::get_mut::<&str>', [Ref(b.fields[1].fields, 3), RStr(args[0])])
        if r.variant == 'Some':
            del r.fields[0].get().b[n:]
        return b
    if method == 'typed_model':
        # a user-written typed qualifier (KnownQualifierKey with the declared key of the given tag)
        from .qops import MQ_KEYS
        tag = bytes(args[0]).decode()
        I.mq_key = MQ_KEYS[tag]
        return I.call('builder::GenericPurlBuilder::<%s>::with_typed_qualifier::<ModelQual>' % t, [b, Some(Adt('ModelQual', None, [RStr(args[1])]))])
    if method == 'repository_url':
        return I.call("builder::GenericPurlBuilder::<%s>::with_typed_qualifier::<RepositoryUrl<'_>>" % t, [b, Some(Adt('RepositoryUrl', None, [RStr(args[0])]))])
    if method == 'no_repository_url':
        return I.call("builder::GenericPurlBuilder::<%s>::with_typed_qualifier::<RepositoryUrl<'_>>" % t, [b, NONE_()])
    if method == 'no_checksum':
        r = I.call("builder::GenericPurlBuilder::<%s>::try_with_typed_qualifier::<Checksum<'_>>" % t, [b, NONE_()])
        return r.fields[0]
    raise ValueError(method)


def b_build(I, T, b):
    return I.call('builder::GenericPurlBuilder::<%s>::build' % tytext(T), [b])


def gen_build(L, T, type_bytes, name, steps, via='ctor'):
    """run a builder script; steps = [(method, byte lists...)].  Returns (p | None, tag).  Registers the native case."""
    I = L.I
    req = {'op': 'build', 'T': KINDS[T][1], 'type': SymStr(type_bytes), 'name': SymStr(name), 'via': via,
           'steps': [[m] + [SymStr(a) for a in args] for m, *args in steps]}
    L.expect_native(req, {})
    if via == 'new':
        r = p_new(I, T, mk_type(I, T, type_bytes), name)
        if r.variant == 'Err':
            nm = err_name(r.fields[0])
            L.expect_native(req, {'err': nm})
            return None, 'rejected:' + nm
        return r.fields[0], 'built'
    b = b_parsed(I, T, type_bytes, via == 'parsed_long') if via in ('parsed', 'parsed_long') else b_new(I, T, mk_type(I, T, type_bytes), name, via)
    for m, *args in steps:
        b = b_call(I, T, b, m, *args)
        if m == 'with_qualifier':
            if b.variant == 'Err':
                nm = 'with_qualifier:' + err_name(b.fields[0])
                L.expect_native(req, {'err': nm})
                return None, 'rejected:' + nm
            b = b.fields[0]
    r = b_build(I, T, b)
    if r.variant == 'Err':
        nm = err_name(r.fields[0])
        L.expect_native(req, {'err': nm})
        return None, 'rejected:' + nm
    return r.fields[0], 'built'


# ------------------------------------------------------------------------------------------ reference renderer (C03)

C0 = tt((0, 0x1F), 0x7F, (0x80, 0xFF))
COMMON = C0 | tt(b' "<>%@?#')
ESC_NS = COMMON | tt(b'`{}')
ESC_NAME = ESC_NS | tt(b'/')
ESC_VER = ESC_NS
ESC_QUAL = COMMON | tt(b'+&')
ESC_SUB = COMMON | tt(b'`')
HEXU = b'0123456789ABCDEF'


def ref_escape(L, b, esc):
    """the documented escaping of one component, as a byte list over the same symbolic bytes"""
    out = []
    for x in b:
        if isinstance(x, int):
            if esc >> x & 1:
                out += [0x25, HEXU[x >> 4], HEXU[x & 15]]
            else:
                out.append(x)
        elif in_set(L.I, x, esc):
            hi, lo = z3.LShR(x, 4), x & 15
            out += [0x25, z3.If(z3.ULT(hi, 10), hi + 0x30, hi + 0x37), z3.If(z3.ULT(lo, 10), lo + 0x30, lo + 0x37)]
        else:
            out.append(x)
    return out


def ref_render(L, acc):
    out = list(b'pkg:') + list(acc['type']) + [0x2F]
    if acc['ns'] is not None:
        out += ref_escape(L, acc['ns'], ESC_NS) + [0x2F]
    out += ref_escape(L, acc['name'], ESC_NAME)
    if acc['ver'] is not None:
        out += [0x40] + ref_escape(L, acc['ver'], ESC_VER)
    sep = 0x3F
    for k, v in acc['quals']:
        out += [sep] + ref_escape(L, k, ESC_QUAL) + [0x3D] + ref_escape(L, v, ESC_QUAL)
        sep = 0x26
    if acc['sub'] is not None:
        out += [0x23] + ref_escape(L, acc['sub'], ESC_SUB)
    return out


def chk_shape(L, T, p, acc, disp):
    """C03: Display == independent renderer; printable ASCII"""
    ref = ref_render(L, acc)
    if len(ref) != len(disp):
        L.fail('canonical string differs in length from the documented rendering')
        return
    L.check('canonical string == documented rendering', bytes_eq_term(disp, ref))
    L.check('canonical string is printable ASCII', b_and(*[rng(x, 0x21, 0x7E) for x in disp]))
    prev = None
    for k, v in acc['quals']:
        if prev is not None and not seq_lt_term(L, prev, k):
            L.fail('qualifiers are not printed in ascending key order')
        prev = k
        if len(v) == 0:
            L.fail('an absent part is printed: qualifier with an empty value')


# ------------------------------------------------------------------------------------------ invariants (C04)

KEY_OK = tt((0x30, 0x39), (0x61, 0x7A), b'.-_')          # valid AND lower-case
TYPE_OK = tt((0x30, 0x39), (0x61, 0x7A), b'.+-')
HEX_LOWER = tt((0x30, 0x39), (0x61, 0x66))
UPPER = tt((0x41, 0x5A))


def all_in(L, b, table):
    return b_and(*[(bool(table >> x & 1) if isinstance(x, int) else _tt_term(x, table)) for x in b])


def _tt_term(x, table):
    from mirsym.ctx import mask_constraint
    return mask_constraint(x, table)


def seq_lt_term(L, a, b):
    """strict lexicographic a < b over byte lists, decided with forks"""
    from mirsym.models import seq_cmp
    return seq_cmp(L.I, a, b) < 0


def chk_invariants(L, T, p, acc, builtin=True):
    """C04: every clause of the statement on one PURL value"""
    I = L.I
    if len(acc['name']) == 0:
        L.fail('PURL with an empty name')
    for f in ('ns', 'ver', 'sub'):
        if acc[f] is not None and len(acc[f]) == 0:
            L.fail('accessor %s reports Some("")' % f)
    prev = None
    for k, v in acc['quals']:
        if len(k) == 0:
            L.fail('empty qualifier key')
        L.check('qualifier key is valid and lower-case', all_in(L, k, KEY_OK))
        if len(v) == 0:
            L.fail('qualifier with an empty value')
        if prev is not None and not seq_lt_term(L, prev, k):
            L.fail('qualifier keys are not strictly ascending')
        prev = k
        # retrievable by its key
        q = I.call('GenericPurl::<%s>::qualifiers' % tytext(T), [Ref([p], 0)])
        got = I.call('Qualifiers::get::<&str>', [q, RStr(k)])
        if got.variant == 'None':
            L.fail('qualifier is not retrievable by its key')
        else:
            L.check('get(key) returns the stored value', bytes_eq_term(list(sbytes(got.fields[0])), v))
    if builtin:
        ty = acc['type']
        if len(ty) == 0:
            L.fail('empty type string')
        L.check('type is lower-case [a-z0-9.+-]', all_in(L, ty, TYPE_OK))
    for k, v in acc['quals']:
        if all(isinstance(x, int) for x in k) and bytes(k) == b'checksum':
            chk_checksum_text(L, v)


def chk_checksum_text(L, v):
    """comma separated alg:hex entries, strictly ascending algorithms, no ASCII upper case, even hex length"""
    I = L.I
    L.check('checksum has no ASCII upper-case letter', b_and(*[b_not_in(x, UPPER) for x in v]))
    entries, cur = [], []
    for x in v:
        if beq(I, x, 0x2C):
            entries.append(cur)
            cur = []
        else:
            cur.append(x)
    entries.append(cur)
    prev = None
    for e in entries:
        cut = None
        for i in range(len(e) - 1, -1, -1):
            if beq(I, e[i], 0x3A):
                cut = i
                break
        if cut is None:
            L.fail('checksum entry without ":"')
            return
        alg, hx = e[:cut], e[cut + 1:]
        if len(hx) % 2 != 0:
            L.fail('checksum entry with an odd number of hex digits')
        L.check('checksum digits are lower-case hex', all_in(L, hx, HEX_LOWER))
        if prev is not None and not seq_lt_term(L, prev, alg):
            L.fail('checksum algorithms are not strictly ascending')
        prev = alg


def b_not_in(x, table):
    if isinstance(x, int):
        return not (table >> x & 1)
    return z3.Not(_tt_term(x, table))


# ------------------------------------------------------------------------------------------ re-build (C10)


def chk_rebuild(L, T, p, disp):
    I = L.I
    cl = I.trait_call('Clone', 'clone', purl_ty(T), [Ref([p], 0)])
    b = I.call('GenericPurl::<%s>::into_builder' % tytext(T), [cl])
    r = b_build(I, T, b)
    if r.variant == 'Err':
        L.fail('re-building an existing PURL fails with %s' % err_name(r.fields[0]))
        return
    q = r.fields[0]
    L.check('re-built PURL == original', purl_eq(I, T, q, p))
    d2 = display(I, T, q)
    L.check('re-built PURL prints the identical string', bytes_eq_term(disp, d2))


# ------------------------------------------------------------------------------------------ shared template families


def lens(maxlen, minlen=0):
    return range(minlen, maxlen + 1)


def fill(tpl, *ns):
    it = iter(ns)
    return [(p[0], p[1], next(it)) if isinstance(p, tuple) else p for p in tpl]


H, G = ('hole', 'h', 0), ('hole', 'g', 0)

SLOTS_MIN = [['pkg:', H, '/n'], ['pkg:t/', H, '/n'], ['pkg:t/', H], ['pkg:t/n@', H], ['pkg:t/n?', H, '=v'],
             ['pkg:t/n?k=', H], ['pkg:t/n#', H]]
SLOTS_FULL = [['pkg:', H, '/ns/n@1?k=v#s'], ['pkg:t/', H, '/n@1?k=v#s'], ['pkg:t/ns/', H, '@1?k=v#s'],
              ['pkg:t/ns/n@', H, '?k=v#s'], ['pkg:t/ns/n@1?', H, '=v#s'], ['pkg:t/ns/n@1?k=', H, '#s'],
              ['pkg:t/ns/n@1?k=v#', H], ['pkg:t/ns/n@1?k=v&', H, '#s']]
PAIRS = [['pkg:t/', H, '@', G], ['pkg:t/n?', H, '=', G], ['pkg:t/n?k=', H, '#', G], ['pkg:t/', H, '/', G]]
