"""C10 -- re-building an existing PURL is the identity."""
from .std import *

ID = 'C10'
PROGS = ['default']


def chk(L, T, p, acc, disp):
    chk_rebuild(L, T, p, disp)


def queries(tier):
    qs = parse_family(tier, [chk]) + build_family(tier, [chk], kinds=('String', 'Purl', 'SmallString', 'CowB', 'CowO'))
    # names at typical size limits (100, 128, 256 characters) for the types that rewrite the name: a two-byte hole in front of a long run
    for ty in ('nuget', 'pypi'):
        for n in (99, 127, 255):
            parts = ['pkg:%s/' % ty, ('hole', 'h', 2), 'a' * n]
            qs.append(Query('Purl %s' % show_template(parts).replace('a' * n, 'a*%d' % n), h_value, {'T': 'Purl', 'parts': parts, 'checks': [chk]},
                            bound='input = pkg:%s/⟦2⟧ followed by %d times "a"' % (ty, n)))
    return qs


def native_request(v):
    return v['case']


def confirm(v, resp):
    if 'panic' in resp:
        return 'panicked: %s' % resp['panic']
    if 'ok' not in resp:
        return None
    rb = resp['ok']['rb']
    if not rb.get('ok'):
        return 'into_builder().build() of an existing PURL fails with %s' % rb.get('err')
    if not rb.get('eq'):
        return 're-built PURL differs from the original %r' % hx(resp['ok']['disp'])
    if not rb.get('same'):
        return 're-built PURL prints a different string than %r' % hx(resp['ok']['disp'])
    return None


def finding_role(v, resp):
    return 'other'


vacuity = std_vacuity
LEVEL_TEXT = ('bounded symbolic model checking of the real MIR: on every accepted / built leaf of the parser and builder templates, '
              'clone().into_builder().build() is interpreted and `Ok`, derived `==` and identical Display are solver-decided')
