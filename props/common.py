"""Shared harness vocabulary: how properties drive the interpreted crate and describe cases natively."""
import z3
from mirsym.vals import *
from mirsym.explore import SymStr, SymVal, Discard
from mirsym.models import sbytes, Formatter, Hasher, utf8_valid, b_and, b_or, rng
from mirsym.types import parse_type

# type parameter names used in queries -> (MIR type text, native oracle kind)
KINDS = {
    'String': ('String', 'String'),
    'SmallString': ('SmartString<LazyCompact>', 'SmallString'),
    'Purl': ('package_type::PackageType', 'Purl'),
    'CowB': ("Cow<'_, str>", 'CowB'),
    'CowO': ("Cow<'_, str>", 'CowO'),
}


def tytext(T):
    return KINDS[T][0]


def purl_ty(T):
    return parse_type('GenericPurl<%s>' % tytext(T))


def from_str(I, T, b):
    return I.call('<GenericPurl<%s> as FromStr>::from_str' % tytext(T), [RStr(b)])


def display(I, T, p):
    """Display::fmt of a GenericPurl value -> byte list (raises Panic if fmt returns Err)"""
    f = Formatter()
    r = I.call('<GenericPurl<%s> as Display>::fmt' % tytext(T), [Ref([p], 0), Ref([f], 0)])
    if r.variant != 'Ok':
        raise Panic('Display returned Err')
    return f.out


def type_string(I, T, p):
    c = I.call('<%s as PurlShape>::package_type' % tytext(T), [Ref(p.fields, 0)])
    return list(sbytes(c))


def opt_str(v):
    return None if v.variant == 'None' else list(sbytes(v.fields[0]))


def accessors(I, T, p):
    """what the public accessors return, by running their MIR"""
    t = tytext(T)
    r = Ref([p], 0)
    out = {
        'type': type_string(I, T, p),
        'ns': opt_str(I.call('GenericPurl::<%s>::namespace' % t, [r])),
        'name': list(sbytes(I.call('GenericPurl::<%s>::name' % t, [r]))),
        'ver': opt_str(I.call('GenericPurl::<%s>::version' % t, [r])),
        'sub': opt_str(I.call('GenericPurl::<%s>::subpath' % t, [r])),
    }
    q = I.call('GenericPurl::<%s>::qualifiers' % t, [r])
    quals = []
    it = I.call('Qualifiers::iter', [q])
    while True:
        nx = I.call('<qualifiers::Iter<\'_> as Iterator>::next', [Ref([it], 0)])
        if nx.variant == 'None':
            break
        k, v = nx.fields[0].fields
        quals.append((list(sbytes(k)), list(sbytes(v))))
    out['quals'] = quals
    return out


def obs_expect(acc, disp=None):
    """native expectation (subset of the oracle's `observe`) from symbolic accessors"""
    e = {
        'type': SymStr(acc['type']),
        'ns': None if acc['ns'] is None else SymStr(acc['ns']),
        'name': SymStr(acc['name']),
        'ver': None if acc['ver'] is None else SymStr(acc['ver']),
        'sub': None if acc['sub'] is None else SymStr(acc['sub']),
        'quals': [[SymStr(k), SymStr(v)] for k, v in acc['quals']],
    }
    if disp is not None:
        e['disp'] = SymStr(disp)
    return e


def err_name(e):
    """the oracle's naming of ParseError / PackageError values"""
    if e.ty == 'ParseError':
        if e.variant == 'MissingRequiredField':
            return 'MissingRequiredField(%s)' % e.fields[0].variant
        return e.variant
    if e.ty == 'PackageError':
        if e.variant == 'MissingRequiredField':
            return 'MissingRequiredField(%s)' % e.fields[0].variant
        if e.variant == 'Parse':
            return 'Parse(%s)' % err_name(e.fields[0])
        return e.variant
    if e.ty == 'UnsupportedPackageType':
        return 'UnsupportedType'
    return '%s::%s' % (e.ty, e.variant)


def bytes_eq_term(a, b):
    """Boolean term: two byte lists are equal (False if lengths differ)"""
    if len(a) != len(b):
        return False
    terms = []
    for x, y in zip(a, b):
        if isinstance(x, int) and isinstance(y, int):
            if x != y:
                return False
        else:
            terms.append(x == y)
    return b_and(*terms) if terms else True


def purl_eq(I, T, a, b):
    r = I.trait_call('PartialEq', 'eq', purl_ty(T), [Ref([a], 0), Ref([b], 0)])
    return r


def hash_stream(I, T, p):
    h = Hasher()
    I.trait_call('Hash', 'hash', purl_ty(T), [Ref([p], 0), Ref([h], 0)], margs=(parse_type('DefaultHasher'),))
    return h.rec


def template_bytes(L, parts):
    """parts: list of bytes literals and ('hole', name, n) -> (byte list, hole byte lists)"""
    out, holes = [], {}
    for p in parts:
        if isinstance(p, (bytes, bytearray)):
            out.extend(p)
        elif isinstance(p, str):
            out.extend(p.encode())
        else:
            name, n = p[1], p[2]
            hb = L.sym_bytes(name, n)
            if len(p) > 3:
                L.restrict(hb, p[3])
            holes[name] = hb
            out.extend(hb)
    return out, holes


def show_template(parts):
    s = ''
    for p in parts:
        if isinstance(p, (bytes, bytearray)):
            s += p.decode('utf8', 'replace')
        elif isinstance(p, str):
            s += p
        else:
            s += hole_text(p)
    return s


def hole_text(p):
    """⟦n⟧ = n free bytes; ⟦n:abc⟧ = n bytes each ranging over the listed byte values"""
    if len(p) > 3:
        return '⟦%d:%s⟧' % (p[2], bytes(p[3]).decode('latin1'))
    return '⟦%d⟧' % p[2]
