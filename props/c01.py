"""C01 -- parse -> format -> parse is a fixpoint."""
from .common import *
from .std import STRUCT_TEMPLATES
from mirsym.explore import Query

ID = 'C01'
PROGS = ['default']


def h_roundtrip(L, T, parts):
    I = L.I
    s, _ = template_bytes(L, parts)
    L.assume_utf8(s)
    req = {'op': 'parse', 'T': KINDS[T][1], 's': SymStr(s)}
    L.expect_native(req, {})
    try:
        r = from_str(I, T, s)
    except Panic as e:
        L.expect_native(req, {'panic': e.msg})
        L.fail('panic in from_str: %s' % e.msg)
        return 'panic'
    if r.variant == 'Err':
        name = err_name(r.fields[0])
        L.expect_native(req, {'err': name})
        return 'rejected:' + name
    p = r.fields[0]
    try:
        acc = accessors(I, T, p)
        disp = display(I, T, p)
    except Panic as e:
        L.fail('panic in Display: %s' % e.msg)
        return 'panic'
    L.expect_native(req, {'ok': obs_expect(acc, disp)})
    # 1. the canonical string is accepted
    try:
        r2 = from_str(I, T, disp)
    except Panic as e:
        L.fail('panic re-parsing the canonical string: %s' % e.msg)
        return 'accepted'
    if r2.variant == 'Err':
        L.fail('canonical string rejected: %s' % err_name(r2.fields[0]))
        return 'accepted'
    p2 = r2.fields[0]
    # 2. ... parses to an equal PURL (the derived PartialEq, interpreted)
    eq = purl_eq(I, T, p2, p)
    L.check('re-parsed PURL == original', eq)
    # 3. ... and formats to the identical string
    disp2 = display(I, T, p2)
    L.check('canonical string is a fixpoint', bytes_eq_term(disp, disp2))
    return 'accepted'


def _lens(maxlen, minlen=0):
    return range(minlen, maxlen + 1)


def queries(tier):
    qs = []
    # the thorough tier of this check explores the same inputs as the quick tier (the deeper bounds once planned were never shown to
    # finish within the two-hour cap); it differs in validation depth: every leaf's witness is replayed natively and leaf obligations
    # are re-decided by cvc5
    thorough = False

    def add(T, parts):
        qs.append(Query('%s %s' % (T, show_template(parts)), h_roundtrip, {'T': T, 'parts': parts},
                        bound='input = %s, ⟦n⟧ = every valid-UTF-8 byte string of exactly n bytes' % show_template(parts)))

    for T in ('String', 'SmallString'):
        deep = T == 'String'
        # whole tail after the scheme
        for n in _lens(5 if thorough and deep else 4 if deep else 3):
            add(T, ['pkg:', ('hole', 'h', n)])
        # qualifier value / checksum contexts
        for n in _lens(5 if thorough and deep else 4 if deep else 3):
            add(T, ['pkg:t/n?k=', ('hole', 'h', n)])
        for n in _lens(6 if thorough and deep else 4 if deep else 3, 1):
            add(T, ['pkg:t/n?checksum=', ('hole', 'h', n)])
        for n in _lens(3 if thorough else 2, 1):
            add(T, ['pkg:t/n?checksum=a:', ('hole', 'h', n), ',B:', ('hole', 'g', n)])
        # slot family: one hole per component position, minimal and full context
        m = 4 if thorough and deep else 3 if deep else 2
        slots = [
            ['pkg:', ('hole', 'h', 0), '/n'], ['pkg:t/', ('hole', 'h', 0), '/n'], ['pkg:t/', ('hole', 'h', 0)],
            ['pkg:t/n@', ('hole', 'h', 0)], ['pkg:t/n?', ('hole', 'h', 0), '=v'], ['pkg:t/n#', ('hole', 'h', 0)],
            ['pkg:', ('hole', 'h', 0), '/ns/n@1?k=v#s'], ['pkg:t/', ('hole', 'h', 0), '/n@1?k=v#s'],
            ['pkg:t/ns/', ('hole', 'h', 0), '@1?k=v#s'], ['pkg:t/ns/n@', ('hole', 'h', 0), '?k=v#s'],
            ['pkg:t/ns/n@1?', ('hole', 'h', 0), '=v#s'], ['pkg:t/ns/n@1?k=', ('hole', 'h', 0), '#s'],
            ['pkg:t/ns/n@1?k=v#', ('hole', 'h', 0)], ['pkg:t/ns/n@1?k=v&', ('hole', 'h', 0), '#s'],
        ]
        for sl in slots:
            for n in _lens(m, 1):
                add(T, [(p[0], p[1], n) if isinstance(p, tuple) else p for p in sl])
        # two adjacent holes
        k = 3 if thorough and deep else 2
        pairs = [
            ['pkg:t/', ('hole', 'h', 0), '@', ('hole', 'g', 0)],
            ['pkg:t/n?', ('hole', 'h', 0), '=', ('hole', 'g', 0)],
            ['pkg:t/n?k=', ('hole', 'h', 0), '#', ('hole', 'g', 0)],
            ['pkg:t/', ('hole', 'h', 0), '/', ('hole', 'g', 0)],
        ]
        if deep:
            for pr in pairs:
                for a in _lens(k, 1):
                    for b in _lens(k, 1):
                        lens = iter([a, b])
                        add(T, [(p[0], p[1], next(lens)) if isinstance(p, tuple) else p for p in pr])
    # long skeletons: many segments / qualifiers around small holes
    for T in ('String', 'Purl'):
        ty = 't' if T == 'String' else 'golang'
        add(T, ['pkg:%s/a/b/c/d/' % ty, ('hole', 'h', 2), '/f/n@1.2.3?b=1&d=2&f=3&h=4&', ('hole', 'g', 1), '=5&l=6#x/y/z'])
        add(T, ['pkg:%s/n?b=1&d=2&f=3&h=4&j=5&l=6&' % ty, ('hole', 'h', 2), '=v'])
        add(T, ['pkg:%s/n?' % ty, ('hole', 'h', 1), '=v&b=1&d=2&F=3&h=4&J=5&l=6&n=7'])
        add(T, ['pkg:%s/n#a/b/./c/../d/' % ty, ('hole', 'h', 3), '/e//f'])
    for parts in STRUCT_TEMPLATES(1 if thorough else 0):
        add('String', parts)
    # several free keys: the order in which keys arrive differs between the input and its canonical string
    for T in ('String', 'Purl'):
        ty = 't' if T == 'String' else 'npm'
        add(T, ['pkg:%s/n?' % ty, ('hole', 'a', 2), '=1&', ('hole', 'b', 2), '=2'])
        add(T, ['pkg:%s/n?' % ty, ('hole', 'a', 1), '=1&', ('hole', 'b', 1), '=2&', ('hole', 'c', 1), '=3'])
        if thorough or T == 'String':
            add(T, ['pkg:%s/n?' % ty, ('hole', 'a', 1), '=1&', ('hole', 'b', 1), '=2&', ('hole', 'c', 1), '=3&', ('hole', 'd', 1), '=4'])
        if thorough:
            add(T, ['pkg:%s/n?' % ty, ('hole', 'a', 1), '=1&', ('hole', 'b', 1), '=2&', ('hole', 'c', 1), '=3&', ('hole', 'd', 1), '=4&', ('hole', 'e', 1), '=5'])
            add(T, ['pkg:%s/n?' % ty, ('hole', 'a', 2), '=1&', ('hole', 'b', 2), '=2&', ('hole', 'c', 2), '=3'])
    # typed PURL: the seven types, holes in namespace / name / whole tail
    for ty in ('cargo', 'gem', 'golang', 'maven', 'npm', 'nuget', 'pypi'):
        for n in _lens(4 if thorough else 3, 1):
            add('Purl', ['pkg:%s/ns/' % ty, ('hole', 'h', n)])
        for n in _lens(3 if thorough else 2, 1):
            add('Purl', ['pkg:%s/' % ty, ('hole', 'h', n), '/n@1?k=v#s'])
    for n in _lens(4 if thorough else 3):
        add('Purl', ['pkg:', ('hole', 'h', n), '/ns/n'])
    return qs


def native_request(viol):
    return viol['case']


def confirm(viol, resp):
    """does the real crate violate C01 on this input?"""
    if 'panic' in resp:
        return 'from_str panicked: %s' % resp['panic']
    if 'ok' not in resp:
        return None
    rt = resp['ok'].get('rt')
    if rt is None:
        return None
    if not rt.get('ok'):
        return 'accepted, prints %r, which is rejected with %s' % (bytes.fromhex(resp['ok']['disp']).decode('utf8', 'replace'), rt.get('err'))
    if not rt.get('eq'):
        return 'canonical string %r parses to a different PURL' % bytes.fromhex(resp['ok']['disp']).decode('utf8', 'replace')
    if not rt.get('same'):
        return 'canonical string %r does not format to itself' % bytes.fromhex(resp['ok']['disp']).decode('utf8', 'replace')
    return None


def finding_role(viol, resp):
    """role of the failing input, for matching against known_findings.json"""
    if 'ok' in resp:
        for k, v in resp['ok']['quals']:
            if b'&' in bytes.fromhex(v) or b'&' in bytes.fromhex(k):
                return 'qualifier-with-decoded-ampersand'
    return 'other'


def vacuity(results):
    probs = []
    acc = sum(r['outcomes'].get('accepted', 0) for r in results)
    rej = sum(v for r in results for k, v in r['outcomes'].items() if k.startswith('rejected'))
    if acc == 0:
        probs.append('no accepted leaf: the round trip was never exercised')
    if rej == 0:
        probs.append('no rejected leaf: the templates do not reach the error paths')
    return probs


LEVEL_TEXT = ('bounded symbolic model checking of the real MIR: for every input shape listed (skeleton + holes over all '
              'valid-UTF-8 byte values) every feasible control-flow path of from_str -> build -> Display -> from_str -> == '
              'is executed symbolically and the three clauses of C01 are solver validity queries over the hole bytes')
OUTSIDE = ['inputs with more free bytes than the listed holes / other skeletons', 'allocation failure',
           'internals of std, percent-encoding, hex, phf, unicase, smartstring (API-level models, validated by witness replay)']
