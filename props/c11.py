"""C11 -- the qualifier collection behaves as a case-insensitive sorted map."""
from .qops import *
from mirsym.models import seq_cmp, Hasher

ID = 'C11'
PROGS = ['default']


def iter_both(L, q):
    I = L.I
    qr = Ref([q], 0)
    fwd, rev = [], []
    it = I.call('Qualifiers::iter', [qr])
    while True:
        nx = I.call("<qualifiers::Iter<'_> as Iterator>::next", [Ref([it], 0)])
        if nx.variant == 'None':
            break
        fwd.append((list(sbytes(nx.fields[0].fields[0])), list(sbytes(nx.fields[0].fields[1]))))
    it = I.call('Qualifiers::iter', [qr])
    while True:
        nx = I.call("<qualifiers::Iter<'_> as DoubleEndedIterator>::next_back", [Ref([it], 0)])
        if nx.variant == 'None':
            break
        rev.append((list(sbytes(nx.fields[0].fields[0])), list(sbytes(nx.fields[0].fields[1]))))
    # the same through the other iteration entry points: IntoIterator for &Qualifiers / &mut Qualifiers, iter_mut from both ends,
    # and the exact size reported up front
    it = I.call("<&Qualifiers as IntoIterator>::into_iter", [qr])
    sh = I.call("<qualifiers::Iter<'_> as Iterator>::size_hint", [Ref([it], 0)])
    n_into = 0
    while I.call("<qualifiers::Iter<'_> as Iterator>::next", [Ref([it], 0)]).variant != 'None':
        n_into += 1
    mf, mr = [], []
    it = I.call('Qualifiers::iter_mut', [qr])
    shm = I.call("<qualifiers::IterMut<'_> as Iterator>::size_hint", [Ref([it], 0)])
    while True:
        nx = I.call("<qualifiers::IterMut<'_> as Iterator>::next", [Ref([it], 0)])
        if nx.variant == 'None':
            break
        mf.append((list(sbytes(nx.fields[0].fields[0])), list(sbytes(nx.fields[0].fields[1]))))
    it = I.call("<&mut Qualifiers as IntoIterator>::into_iter", [qr])
    while True:
        nx = I.call("<qualifiers::IterMut<'_> as DoubleEndedIterator>::next_back", [Ref([it], 0)])
        if nx.variant == 'None':
            break
        mr.append((list(sbytes(nx.fields[0].fields[0])), list(sbytes(nx.fields[0].fields[1]))))
    hints = [(h.fields[0], h.fields[1].fields[0] if h.fields[1].variant == 'Some' else None) for h in (sh, shm)]
    if n_into != len(fwd) or len(mf) != len(fwd) or len(mr) != len(rev) or any(h != (len(fwd), len(fwd)) for h in hints):
        L.fail('iteration entry points disagree on the number of entries (iter / into_iter / iter_mut / size_hint)')
    elif fwd:
        L.check('iter_mut yields the same entries as iter, from both ends', b_and(obs_term_eq([list(x) for x in mf], [list(x) for x in fwd]),
                                                                                obs_term_eq([list(x) for x in mr], [list(x) for x in rev])))
    return fwd, rev, I.call('Qualifiers::len', [qr]), I.call('Qualifiers::is_empty', [qr])


ITER_BASE = {'next', 'next_back', 'size_hint'}


def iter_overrides(I, type_name):
    """methods of Iterator / DoubleEndedIterator / ExactSizeIterator that the crate overrides for one of its iterator types (read off the MIR)"""
    out = []
    for imp in I.prog.impls:
        if imp.trait is None or imp.trait[1] not in ('Iterator', 'DoubleEndedIterator', 'ExactSizeIterator'):
            continue
        if imp.self_ty[0] != 'adt' or imp.self_ty[1].split('::')[-1] != type_name:
            continue
        out += [(imp.trait[1], m) for m in imp.methods if m not in ITER_BASE]
    return out


def chk_iter_overrides(L, q, fwd, what):
    """an overridden adaptor method must behave like std's default, which is defined through next / next_back; an override without a
    reference semantics here is reported as unsupported (exit 2), never passed over"""
    I = L.I
    qr = Ref([q], 0)
    n = len(fwd)
    for ty, ctor in (('Iter', 'Qualifiers::iter'), ('IterMut', 'Qualifiers::iter_mut')):
        for tr, meth in iter_overrides(I, ty):
            name = "<qualifiers::%s<'_> as %s>::%s" % (ty, tr, meth)
            nxt = "<qualifiers::%s<'_> as Iterator>::next" % ty

            def item(o):
                return None if o.variant == 'None' else (list(sbytes(o.fields[0].fields[0])), list(sbytes(o.fields[0].fields[1])))
            if meth in ('nth', 'nth_back'):
                for k in range(n + 1):
                    it = I.call(ctor, [qr])
                    got = item(I.call(name, [Ref([it], 0), k]))
                    rest = item(I.call(nxt, [Ref([it], 0)]))
                    seq = fwd if meth == 'nth' else fwd[::-1]
                    want = seq[k] if k < n else None
                    # after nth(k) the front continues at k+1; after nth_back(k) the front is untouched unless everything was consumed
                    want_rest = (fwd[k + 1] if k + 1 < n else None) if meth == 'nth' else (fwd[0] if k + 1 < n else None)
                    for g, w in ((got, want), (rest, want_rest)):
                        if (g is None) != (w is None):
                            L.fail('%s: %s::%s(%d) does not behave like repeated next / next_back' % (what, ty, meth, k))
                        elif g is not None:
                            L.check('%s: %s::%s == default built on next / next_back' % (what, ty, meth), obs_term_eq([list(g)], [list(w)]))
            elif meth in ('count', 'len'):
                it = I.call(ctor, [qr])
                if I.call(name, [it] if meth == 'count' else [Ref([it], 0)]) != n:
                    L.fail('%s: %s::%s differs from the number of entries' % (what, ty, meth))
            elif meth == 'last':
                it = I.call(ctor, [qr])
                got = item(I.call(name, [it]))
                if (got is None) != (n == 0):
                    L.fail('%s: %s::last disagrees with iteration' % (what, ty))
                elif got is not None:
                    L.check('%s: %s::last == last entry' % (what, ty), obs_term_eq([list(got)], [list(fwd[-1])]))
            else:
                raise Unsupported('%s overrides %s::%s, for which this check has no reference semantics' % (ty, tr, meth))


def chk_content(L, q, want, what):
    fwd, rev, ln, emp = iter_both(L, q)
    if ln != len(want) or emp != (len(want) == 0) or len(fwd) != len(want) or len(rev) != len(want):
        L.fail('%s: length / iteration count differs from the reference map' % what)
        return
    L.check('%s: forward iteration == reference content' % what, obs_term_eq([list(x) for x in fwd], [list(x) for x in want]))
    chk_iter_overrides(L, q, fwd, what)
    L.check('%s: reverse iteration == reversed reference content' % what, obs_term_eq([list(x) for x in rev], [list(x) for x in want[::-1]]))
    # invariant: keys valid lower-case, strictly ascending
    prev = None
    for k, v in fwd:
        L.check('%s: key valid and lower-case' % what, all_in(L, k, KEY_OK) if k else False)
        if prev is not None and seq_cmp(L.I, prev, k) >= 0:
            L.fail('%s: keys not strictly ascending' % what)
        prev = k


def h_step(L, nkeys, klen, vlen, op, keylen, vallen):
    return _step(L, pre_state(L, nkeys, klen, vlen), op, keylen, vallen)


def _step(L, items, op, keylen, vallen):
    I = L.I
    key = L.sym_bytes('key', keylen)
    val = L.sym_bytes('val', vallen)
    L.assume_utf8(key)
    L.assume_utf8(val)
    q = mk_quals(items)
    req = {'op': 'quals', 'init': [[SymStr(k), SymStr(v)] for k, v in items],
           'steps': [[op] + ([SymStr(key)] if op not in NOKEY else []) + ([SymStr(val)] if op in WITHVAL else [])]}
    if op == 'reserve':
        req['steps'] = [[op, 3]]
    L.expect_native(req, {})
    want_ret, want_items = ref_op(L, items, op, key, val)
    try:
        got = run_op(L, q, op, key, val)
    except Panic as e:
        if want_ret == 'PANIC':
            L.expect_native(req, {'panic': SymVal(None)} if False else {})
            return 'documented-panic'
        L.fail('panic: %s' % e.msg)
        return 'panic'
    if want_ret == 'PANIC':
        L.fail('indexing an absent key did not panic')
        return 'ok'
    eq = obs_term_eq(got, want_ret)
    if eq is False:
        L.fail('%s returned something else than the reference map' % op)
    else:
        L.check('%s: return value == reference' % op, eq)
    chk_content(L, q, want_items, op)
    # every key of the reference is found in either letter case, and reports its value
    for k, v in want_items:
        up = [x - 0x20 if isinstance(x, int) and 0x61 <= x <= 0x7A else (z3.If(z3.And(z3.UGE(x, 0x61), z3.ULE(x, 0x7A)), x - 0x20, x) if not isinstance(x, int) else x) for x in k]
        for kk in (k, up):
            g = I.call('Qualifiers::get::<&str>', [Ref([q], 0), RStr(kk)])
            if g.variant == 'None':
                L.fail('a key of the reference content is not found by get()')
            else:
                L.check('get() returns the reference value', bytes_eq_term(list(sbytes(g.fields[0])), v))
    L.expect_native(req, {'rets': [to_native(got)], 'content': {'items': [[SymStr(k), SymStr(v)] for k, v in want_items], 'len': len(want_items)}})
    return 'ok'


def h_step_fixed(L, keys, op, keylen, vallen):
    """as h_step, from a collection with the given concrete keys (sorted, valid) and free values"""
    items = []
    for i, k in enumerate(sorted(keys)):
        v = L.sym_bytes('v%d_' % i, 1)
        L.assume_utf8(v)
        items.append((list(k.encode()), v))
    return _step(L, items, op, keylen, vallen)


from .qops import MQ_OPS
NOKEY = set(MQ_OPS) | {'retain_nonempty', 'retain_mut_append', 'iter_mut_append', 'clear', 'reserve', 'insert_repository_url',
         'get_repository_url', 'contains_repository_url', 'remove_repository_url'}
WITHVAL = {'insert', 'get_mut_set', 'entry_or_insert', 'entry_or_insert_with', 'entry_and_modify', 'occ_insert', 'occ_get_mut_set', 'occ_into_mut_set', 'vac_insert',
           'retain_mut_append', 'iter_mut_append', 'index_set', 'insert_repository_url'} | {o for o in MQ_OPS if o.endswith('_insert')}


def h_from_iter(L, n, klen, vlen):
    """base case: try_from_iter establishes the invariant, refuses invalid keys and keys repeated in any case"""
    I = L.I
    pairs = []
    for i in range(n):
        k = L.sym_bytes('k%d_' % i, klen)
        v = L.sym_bytes('v%d_' % i, vlen)
        L.assume_utf8(k)
        L.assume_utf8(v)
        pairs.append((k, v))
    req = {'op': 'quals', 'init': [[SymStr(k), SymStr(v)] for k, v in pairs], 'steps': []}
    L.expect_native(req, {})
    arr = VecVal([Tup(RStr(k), RStr(v)) for k, v in pairs])
    try:
        r = I.call('Qualifiers::try_from_iter::<[(&str, &str); %d], &str, &str>' % n, [arr])
    except Panic as e:
        L.fail('panic: %s' % e.msg)
        return 'panic'
    want, bad = [], False
    for k, v in pairs:
        if not key_valid(L, k):
            bad = True
            break
        lk = R_.lower(L, k)
        if ref_find(L, want, lk) is not None:
            bad = True
            break
        want.insert(ref_insert_pos(L, want, lk), (lk, list(v)))
    if r.variant == 'Err':
        L.expect_native(req, {'init_err': err_name(r.fields[0])})
        if not bad:
            L.fail('try_from_iter refused valid distinct keys')
        elif err_name(r.fields[0]) != 'InvalidQualifier':
            L.fail('try_from_iter failed with %s' % err_name(r.fields[0]))
        return 'refused'
    if bad:
        L.fail('try_from_iter accepted an invalid key or a key repeated in another letter case')
        return 'built'
    q = r.fields[0]
    chk_content(L, q, want, 'try_from_iter')
    L.expect_native(req, {'content': {'items': [[SymStr(k), SymStr(v)] for k, v in want]}})
    return 'built'


def h_eq_hash(L, klen, vlen):
    """two collections with the same content built in different orders / key cases are ==, cmp Equal, hash alike"""
    I = L.I
    k1 = L.sym_bytes('ka', klen)
    k2 = L.sym_bytes('kb', klen)
    v1 = L.sym_bytes('va', vlen)
    v2 = L.sym_bytes('vb', vlen)
    flip = L.sym_bytes('f', 2)      # case-flip masks
    for x in k1 + k2:
        L.assume(mask_term(x, KEY_OK))
    L.assume_utf8(v1)
    L.assume_utf8(v2)
    if seq_cmp(I, k1, k2) == 0:
        raise Discard()

    def flipcase(k, m):
        out = []
        for i, x in enumerate(k):
            bit = z3.Extract(i % 8, i % 8, m) == 1
            out.append(z3.If(z3.And(bit, z3.UGE(x, 0x61), z3.ULE(x, 0x7A)), x - 0x20, x))
        return out
    K1, K2 = flipcase(k1, flip[0]), flipcase(k2, flip[1])
    req = {'op': 'quals', 'init': [[SymStr(k1), SymStr(v1)], [SymStr(k2), SymStr(v2)]],
           'steps': [['compare', [[SymStr(K2), SymStr(v2)], [SymStr(K1), SymStr(v1)]]]]}
    L.expect_native(req, {'rets': [{'eq': True, 'cmp': 0, 'hash_eq': True}]})
    a = I.call('Qualifiers::try_from_iter::<[(&str, &str); 2], &str, &str>', [VecVal([Tup(RStr(k1), RStr(v1)), Tup(RStr(k2), RStr(v2))])])
    b = I.call('Qualifiers::try_from_iter::<[(&str, &str); 2], &str, &str>', [VecVal([Tup(RStr(K2), RStr(v2)), Tup(RStr(K1), RStr(v1))])])
    if a.variant != 'Ok' or b.variant != 'Ok':
        L.fail('construction from valid distinct keys failed')
        return 'built'
    a, b = a.fields[0], b.fields[0]
    QT = parse_type('Qualifiers')
    if not I.ctx.decide(I.trait_call('PartialEq', 'eq', QT, [Ref([a], 0), Ref([b], 0)])):
        L.fail('collections with the same content are not ==')
    if I.trait_call('Ord', 'cmp', QT, [Ref([a], 0), Ref([b], 0)]).variant != 'Equal':
        L.fail('collections with the same content do not compare Equal')
    pc = I.trait_call('PartialOrd', 'partial_cmp', QT, [Ref([a], 0), Ref([b], 0)])
    if pc.variant != 'Some' or pc.fields[0].variant != 'Equal':
        L.fail('partial_cmp disagrees with cmp')
    ha, hb = Hasher(), Hasher()
    I.trait_call('Hash', 'hash', QT, [Ref([a], 0), Ref([ha], 0)], margs=(parse_type('DefaultHasher'),))
    I.trait_call('Hash', 'hash', QT, [Ref([b], 0), Ref([hb], 0)], margs=(parse_type('DefaultHasher'),))
    if len(ha.rec) != len(hb.rec):
        L.fail('equal collections feed different amounts of data to the hasher')
    else:
        L.check('equal collections hash alike', b_and(*[(x == y) if not (isinstance(x, (int, tuple)) and isinstance(y, (int, tuple))) else (x == y) for x, y in zip(ha.rec, hb.rec)]))
    return 'built'


def queries(tier):
    th = tier == 'thorough'
    qs = []
    for op in OPS:
        nokey = op in NOKEY
        for nk in range(0, (4 if th else 3)):
            for kl in ((0, 1, 2, 3) if th else (0, 1, 2)):
                if nokey and kl != 0:
                    continue
                if not nokey and op in ('retain_key_ne',) and kl == 0:
                    continue
                vl = 1 if op in WITHVAL else 0
                qs.append(Query('step %s state=%d keys key=⟦%d⟧' % (op, nk, kl), h_step,
                                {'nkeys': nk, 'klen': [1, 2, 1][:nk] if nk <= 3 else 1, 'vlen': 1, 'op': op, 'keylen': kl, 'vallen': vl},
                                bound='pre-state: any %d entries satisfying the invariant (keys of 1-2 free bytes, values 1 free byte); argument key: any valid-UTF-8 string of %d bytes' % (nk, kl)))
    # long (3-byte) argument keys for the lookup family: covers non-ASCII look-alikes of stored ASCII keys (U+212A, U+017F)
    for op in ('get', 'contains_key', 'remove', 'index', 'entry', 'insert', 'get_mut_set', 'index_set'):
        for nk in ((1, 2) if th else (1,)):
            qs.append(Query('step %s state=%d keys key=⟦3⟧ (1-byte stored keys)' % (op, nk), h_step,
                            {'nkeys': nk, 'klen': [1, 1][:nk], 'vlen': 1, 'op': op, 'keylen': 3, 'vallen': 1 if op in WITHVAL else 0},
                            bound='pre-state: %d one-byte keys; argument key: any valid-UTF-8 string of 3 bytes' % nk))
    # larger collections (binary search over 5-7 entries): concrete stored keys, free argument key
    for op in ('insert', 'get', 'remove', 'entry', 'entry_or_insert', 'contains_key', 'index', 'occ_remove', 'get_mut_set', 'retain_key_ne'):
        for keys in (['b', 'd', 'f', 'h', 'j'], ['a1', 'a_', 'aa', 'b-', 'b.', 'c', 'zz'], list('bdfhjlnprt'), list('abcdefghijklmnopq')):
            if len(keys) > 7 and op not in ('insert', 'get', 'remove', 'entry', 'index'):
                continue
            for kl in ((1, 2) if len(keys) <= 7 else (1,)):
                qs.append(Query('step %s state=%s key=⟦%d⟧' % (op, ','.join(keys), kl), h_step_fixed, {'keys': keys, 'op': op, 'keylen': kl, 'vallen': 1 if op in WITHVAL else 0},
                                bound='pre-state: the keys %s with one-byte free values; argument key: any valid-UTF-8 string of %d bytes' % (keys, kl)))
    for n in range(0, 4 if th else 3):
        for kl in ((1, 2) if th else (1,)):
            qs.append(Query('try_from_iter %d pairs key=⟦%d⟧' % (n, kl), h_from_iter, {'n': n, 'klen': kl, 'vlen': 1},
                            bound='%d pairs with free keys of %d bytes and values of 1 byte' % (n, kl)))
    qs.append(Query('try_from_iter 2 pairs key=⟦2⟧', h_from_iter, {'n': 2, 'klen': 2, 'vlen': 0}, bound='2 pairs, keys of 2 free bytes, empty values'))
    for kl in ((1, 2, 3) if th else (1, 2)):
        qs.append(Query('eq/ord/hash keys=⟦%d⟧' % kl, h_eq_hash, {'klen': kl, 'vlen': 1}, bound='two entries, keys of %d free bytes in any letter case, either insertion order' % kl))
    return qs


def native_request(v):
    return v['case']


def confirm(v, resp):
    """replay the single step on the real collection and compare with a concrete reference map"""
    req = v['case']
    if 'init_err' in resp:
        pairs = [(bytes.fromhex(k), bytes.fromhex(x)) for k, x in req['init']]
        import re
        keys = [k.lower() for k, _ in pairs]
        bad = any(not re.fullmatch(rb'[A-Za-z0-9._-]+', k) for k, _ in pairs) or len(set(keys)) != len(keys)
        return None if bad else 'try_from_iter refuses valid distinct keys %r' % keys
    if not req.get('steps'):
        items = [(bytes.fromhex(k), bytes.fromhex(x)) for k, x in resp['content']['items']]
        pairs = [(bytes.fromhex(k).lower(), bytes.fromhex(x)) for k, x in req['init']]
        import re
        if any(not re.fullmatch(rb'[a-z0-9._-]+', k) for k, _ in pairs) or len({k for k, _ in pairs}) != len(pairs):
            return 'try_from_iter accepted invalid or repeated keys %r' % [k for k, _ in pairs]
        return None if items == sorted(pairs) else 'try_from_iter content %r differs from the sorted pairs' % items
    class NL:
        I = None
    st = req['steps'][0]
    op = st[0]
    if op == 'compare':
        r = resp['rets'][0]
        if r.get('eq') is not True or r.get('cmp') != 0 or r.get('hash_eq') is not True:
            return 'collections with the same content compare as %r' % r
        return None
    items = [(list(bytes.fromhex(k)), list(bytes.fromhex(x))) for k, x in req['init']]
    key = list(bytes.fromhex(st[1])) if len(st) > 1 and isinstance(st[1], str) and op not in NOKEY else []
    val = list(bytes.fromhex(st[-1])) if op in WITHVAL else []
    try:
        want_ret, want_items = ref_op(NL, items, op, key, val)
    except Discard:
        return None
    if 'panic' in resp:
        return None if want_ret == 'PANIC' else 'panicked: %s' % resp['panic']
    if want_ret == 'PANIC':
        return 'indexing an absent key did not panic'
    got_items = [(list(bytes.fromhex(k)), list(bytes.fromhex(x))) for k, x in resp['content']['items']]
    if got_items != want_items:
        return '%s(%r): content is %r, the reference map has %r' % (op, bytes(key), [(bytes(k), bytes(x)) for k, x in got_items], [(bytes(k), bytes(x)) for k, x in want_items])
    if [(list(bytes.fromhex(k)), list(bytes.fromhex(x))) for k, x in resp['content']['rev']] != want_items[::-1]:
        return 'reverse iteration disagrees with the reference map'
    w = resp['content'].get('walks')
    if w:
        fw = resp['content']['items']
        for name, want in (('nth', fw), ('mut_nth', fw), ('mut_fwd', fw), ('into', fw), ('nth_back', fw[::-1]), ('mut_nth_back', fw[::-1]), ('mut_rev', fw[::-1])):
            if w[name] != want:
                return 'walking the collection with %s gives %r, iteration gives %r' % (name, w[name], want)
        if any(w[k] != len(fw) for k in ('count', 'mut_count', 'exact_len', 'size_hint')) or w['last'] != (fw[-1] if fw else None) or not w['beyond_is_none']:
            return 'count / len / size_hint / last / nth beyond the end disagree with iteration: %r' % w
    from mirsym.explore import concretize, subset_match
    class M:
        def eval(self, *a, **k):
            raise AssertionError
    wn = concretize(to_native(want_ret), None) if want_ret is not None else None
    if subset_match(wn, resp['rets'][0]):
        return '%s(%r) returned %r, the reference map gives %r' % (op, bytes(key), resp['rets'][0], wn)
    return None


def finding_role(v, resp):
    return 'other'


def vacuity(results):
    probs = []
    if not any(r['outcomes'].get('ok') for r in results):
        probs.append('no step leaf')
    if not any(r['outcomes'].get('documented-panic') for r in results):
        probs.append('the documented index panic was never reached')
    if not any(r['outcomes'].get('refused') for r in results):
        probs.append('try_from_iter never refused')
    return probs


LEVEL_TEXT = ('bounded symbolic model checking of the real MIR, as an inductive step: from an arbitrary collection satisfying the representation '
              'invariant (symbolic keys constrained to be valid, lower-case, strictly ascending) every public operation is interpreted with a free '
              'key / value and return value, content in both iteration directions, length, invariant and case-insensitive lookups are compared '
              'with a reference map by solver validity queries; base cases (try_from_iter) and Eq/Ord/Hash agreement are separate queries')
ASSUMPTIONS = ['the representation invariant used for the pre-states (valid lower-case keys, strictly ascending) is established by the base cases checked in the same run']
