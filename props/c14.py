"""C14 -- user-supplied package types: call protocol and post-hook validation."""
from .std import *
from . import ref as R_
from . import shapes
from .shapes import model_err_name
from .cksum import RefCk
from mirsym.models import seq_cmp

ID = 'C14'
PROGS = ['default']
TY = 'ModelShape'
KINDS['Shape'] = (TY, 'Shape')


def hook_request(hook):
    return [[e[0]] + [SymStr(x) for x in e[1:]] for e in hook]


def expected_after_hook(L, base, hook):
    """fields after the hook's edits, before the generic post-checks.  base: dict ns/name/ver/sub (bytes) + quals list"""
    f = {k: list(v) for k, v in base.items() if k != 'quals'}
    quals = [(list(k), list(v)) for k, v in base['quals']]
    failed = None
    for e in hook:
        if e[0] == 'fail':
            failed = 'Hook'
            break
        if e[0] in ('name', 'ns', 'ver', 'sub'):
            f[e[0]] = list(e[1])
        elif e[0] == 'qual':
            k = e[1]
            if len(k) == 0 or not all(in_set(L.I, x, R_.KEY_CH) for x in k):
                failed = 'Hook'
                break
            lk = R_.lower(L, k)
            quals = [(a, b) for a, b in quals if not R_.eq(L, a, lk)]
            pos = 0
            while pos < len(quals) and seq_cmp(L.I, quals[pos][0], lk) < 0:
                pos += 1
            quals.insert(pos, (lk, list(e[2])))
    return f, quals, failed


def post_checks(L, f, quals):
    """the generic checks that run after the hook -> (error name | None, final qualifiers)"""
    if len(f['name']) == 0:
        return 'Parse(MissingRequiredField(Name))', None
    out = []
    for k, v in quals:
        if len(v) == 0:
            continue
        if all(isinstance(x, int) for x in k) and bytes(k) == b'checksum':
            okc, entries = R_.read_checksum(L, v)
            if not okc:
                return 'Parse(InvalidQualifier)', None
            rc = RefCk()
            rc.e = [(a, list(h)) for a, h in entries]
            v = rc.canonical(L)[1]
        out.append((k, v))
    return None, out


def compare_result(L, p, f, quals, type_bytes):
    I = L.I
    acc = accessors(I, 'Shape', p)
    L.in_c04 = True          # (C04 reuses this family and keeps only the obligations raised in this span)
    try:
        chk_invariants(L, 'Shape', p, acc, builtin=False)      # C04 for user-supplied type parameters
    finally:
        L.in_c04 = False
    def opt(b):
        return b if b else None
    for key, name in (('ns', 'namespace'), ('name', 'name'), ('ver', 'version'), ('sub', 'subpath')):
        got, want = acc[key], (f[key] if key == 'name' else opt(f[key]))
        if (got is None) != (want is None) or (got is not None and len(got) != len(want)):
            L.fail('%s reported by the PURL is not what the hook left in the parts' % name)
            return acc
        if got is not None:
            L.check('%s == what the hook left in the parts' % name, bytes_eq_term(got, want))
    if len(acc['quals']) != len(quals) or any(len(a[0]) != len(b[0]) or len(a[1]) != len(b[1]) for a, b in zip(acc['quals'], quals)):
        L.fail('qualifiers reported by the PURL are not the hook\'s qualifiers after the generic clean-up')
        return acc
    L.check('qualifiers == hook\'s qualifiers with empty ones removed and checksum canonicalised',
            b_and(*[b_and(bytes_eq_term(k1, k2), bytes_eq_term(v1, v2)) for (k1, v1), (k2, v2) in zip(acc['quals'], quals)]))
    return acc


def mat_arg(L, a):
    """an argument of a hook edit / builder call: text, a hole, or a list of texts and holes (concatenated; valid UTF-8 as a whole)"""
    if isinstance(a, list):
        out = []
        for x in a:     # the same hole name twice = the same bytes twice
            out.extend(L.sym_bytes(x[1], x[2]) if isinstance(x, tuple) else list(x.encode()))
        L.assume_utf8(out)
        return out
    if isinstance(a, tuple):
        b = L.sym_bytes(a[1], a[2])
        L.assume_utf8(b)
        return b
    return list(a.encode())


def h_parse(L, parts, conv_ok, hook):
    I = L.I
    s, holes = template_bytes(L, parts)
    L.assume_utf8(s)
    hk = [(e[0],) + tuple(mat_arg(L, a) for a in e[1:]) for e in hook]
    I.shape_cfg = {'conv_ok': conv_ok, 'hook': hk}
    I.log = []
    req = {'op': 'shape', 'mode': 'parse', 's': SymStr(s), 'conv_ok': conv_ok, 'hook': hook_request(hk)}
    L.expect_native(req, {})
    try:
        r = I.call('<GenericPurl<%s> as FromStr>::from_str' % TY, [RStr(s)])
    except Panic as e:
        L.fail('panic: %s' % e.msg)
        return 'panic'
    log = list(I.log)
    convs = [x for x in log if x[0] == 'conv']
    fins = [x for x in log if x[0] == 'finish']
    R = R_.read(L, s, checksum=False)
    got_err = model_err_name(r.fields[0]) if r.variant == 'Err' else None
    L.expect_native(req, {'log': [[k, SymStr(v)] for k, v in log]} if got_err is None else {'err': got_err, 'log': [[k, SymStr(v)] for k, v in log]})
    # ---- call protocol
    if len(convs) > 1:
        L.fail('the conversion is invoked more than once per parse')
    if len(fins) > 1:
        L.fail('the finishing hook is invoked more than once per parse')
    if fins and not convs:
        L.fail('the hook runs without a conversion')
    if fins and log.index(fins[0]) < log.index(convs[0]):
        L.fail('the hook runs before the conversion')
    if fins and not conv_ok:
        L.fail('the hook runs although the conversion failed')
    early = R.defects & {'scheme', 'notype', 'badtype'}
    if convs and early:
        L.fail('the conversion is invoked although the type is missing / syntactically invalid')
    if convs and not early:
        # the argument is the type substring exactly as written
        body = s[4:]
        while body and beq(I, body[0], 0x2F):
            body = body[1:]
        for ch in (0x23, 0x3F):
            i = R_.find(L, body, ch, last=True)
            if i is not None:
                body = body[:i]
        i = R_.find(L, body, 0x2F)
        raw = body if i is None else body[:i]
        if len(raw) != len(convs[0][1]):
            L.fail('the conversion receives something else than the type substring')
        else:
            L.check('conversion argument == type substring as written', bytes_eq_term(raw, convs[0][1]))
    # (a well-formed string for which the conversion is never invoked cannot yield a PURL: that is C02's refusal of a legal
    #  spelling, not a breach of the call protocol, so nothing is demanded here)
    # ---- errors are returned unchanged
    if convs and not conv_ok:
        if got_err != 'Conv':
            L.fail('the conversion\'s error is not returned unchanged (got %s)' % got_err)
        return 'conv-failed'
    if got_err is not None and not fins:
        return 'rejected-before-hook'
    if not fins:
        L.fail('a PURL is produced without running the hook')
        return 'accepted'
    # ---- post-hook validation
    base = {'ns': [], 'name': fins[0][1], 'ver': [], 'sub': [], 'quals': []}
    if R.ns:
        j = []
        for i_, sg in enumerate(R.ns):
            if i_:
                j.append(0x2F)
            j += sg
        base['ns'] = j
    if R.ver:
        base['ver'] = R.ver
    if R.sub:
        j = []
        for i_, sg in enumerate(R.sub):
            if i_:
                j.append(0x2F)
            j += sg
        base['sub'] = j
    qs = []
    for k, v in R.quals:
        pos = 0
        while pos < len(qs) and seq_cmp(I, qs[pos][0], k) < 0:
            pos += 1
        qs.insert(pos, (k, v))
    base['quals'] = qs
    f, quals, failed = expected_after_hook(L, base, hk)
    if failed:
        if got_err != failed:
            L.fail('the hook\'s error is not returned unchanged (got %s)' % got_err)
        return 'hook-failed'
    want_err, final = post_checks(L, f, quals)
    if want_err:
        if got_err is None:
            L.fail('after the hook the generic checks must refuse (%s) but a PURL is produced' % want_err)
        return 'refused-after-hook'
    if got_err is not None:
        L.fail('refused with %s although hook and generic checks are satisfied' % got_err)
        return 'rejected'
    compare_result(L, r.fields[0], f, final, None)
    return 'accepted'


def h_build(L, name_n, steps, hook, type_string=None):
    I = L.I
    name = L.sym_bytes('n', name_n)
    L.assume_utf8(name)
    def mat(a):
        return mat_arg(L, a)
    hk = [(e[0],) + tuple(mat(a) for a in e[1:]) for e in hook]
    st = [(m,) + tuple(mat(a) for a in args) for m, *args in steps]
    ts = None if type_string is None else mat(type_string)
    I.shape_cfg = {'conv_ok': True, 'hook': hk, 'type_string': ts}
    I.log = []
    req = {'op': 'shape', 'mode': 'build', 'type': SymStr(list(b'custom')), 'name': SymStr(name), 'steps': [[m] + [SymStr(a) for a in args] for m, *args in st],
           'conv_ok': True, 'hook': hook_request(hk), 'type_string': None if ts is None else SymStr(ts)}
    L.expect_native(req, {})
    try:
        b = I.call('builder::GenericPurlBuilder::<%s>::new::<&str>' % TY, [Adt('ModelShape', None, [StringBuf(b'custom')]), RStr(name)])
        base = {'ns': [], 'name': list(name), 'ver': [], 'sub': [], 'quals': []}
        for m, *args in st:
            b = b_call(I, 'Shape', b, m, *args)
            if m == 'with_qualifier':
                if b.variant == 'Err':
                    return 'rejected-by-setter'
                b = b.fields[0]
                base['quals'] = [(R_.lower(L, args[0]), list(args[1]))]
            else:
                base[{'with_namespace': 'ns', 'with_version': 'ver', 'with_subpath': 'sub'}[m]] = list(args[0])
        r = I.call('builder::GenericPurlBuilder::<%s>::build' % TY, [b])
    except Panic as e:
        L.fail('panic: %s' % e.msg)
        return 'panic'
    log = list(I.log)
    got_err = model_err_name(r.fields[0]) if r.variant == 'Err' else None
    L.expect_native(req, {'log': [[k, SymStr(v)] for k, v in log]} if got_err is None else {'err': got_err, 'log': [[k, SymStr(v)] for k, v in log]})
    fins = [x for x in log if x[0] == 'finish']
    if len(fins) != 1:
        L.fail('build() invokes the finishing hook %d times' % len(fins))
        return 'built'
    if any(x[0] == 'conv' for x in log):
        L.fail('build() invokes the string conversion')
    f, quals, failed = expected_after_hook(L, base, hk)
    if failed:
        if got_err != failed:
            L.fail('the hook\'s error is not returned unchanged (got %s)' % got_err)
        return 'hook-failed'
    want_err, final = post_checks(L, f, quals)
    if want_err:
        if got_err is None:
            L.fail('after the hook the generic checks must refuse (%s) but a PURL is produced' % want_err)
        return 'refused-after-hook'
    if got_err is not None:
        L.fail('refused with %s although hook and generic checks are satisfied' % got_err)
        return 'rejected'
    p = r.fields[0]
    acc = compare_result(L, p, f, final, None)
    # printing: the type string reported by the shape is used as is; an invalid one is the documented panic
    tsb = ts if ts is not None else list(b'custom')
    valid = len(tsb) > 0 and all(in_set(I, x, R_.TYPE_CH) for x in tsb)
    try:
        d = display(I, 'Shape', p)
        if not valid:
            L.fail('Display does not panic for a user type reporting an invalid type string')
        else:
            chk_shape(L, 'Shape', p, acc, d)
    except Panic as e:
        if valid:
            L.fail('Display panics although the type string is valid: %s' % e.msg)
        else:
            return 'documented-panic'
    return 'built'


def queries(tier):
    deep = 1 if tier == 'thorough' else 0      # the former thorough bounds are the quick bounds now
    th = True
    qs = []
    H = lambda n, nm='x': ('hole', nm, n)
    hooks = [[], [('fail',)], [('name', '')], [('name', H(1))], [('ns', H(2))], [('ver', H(1))], [('sub', H(2))],
             [('qual', 'z', '')], [('qual', H(1, 'k'), H(1, 'v'))], [('qual', 'checksum', H(3 + deep))], [('qual', 'checksum', 'B:0A,a:')],
             [('qual', 'checksum', '')], [('qual', 'checksum', H(1))], [('qual', 'checksum', ''), ('qual', 'a', '')],
             [('qual', 'k', ''), ('ver', H(1))], [('name', H(1)), ('fail',)]]
    inputs = [['pkg:', H(3 if th else 2, 'h'), '/n'], ['pkg:custom/', H(2, 'h')], ['pkg:custom/ns/n@1?k=', H(1, 'h'), '#s'], ['pkg:custom/n?', H(1, 'h'), '=', H(1, 'g')],
              ['pkg:', H(4 + deep, 'h')], ['pkg:custom/n?z=1&checksum=A:', H(2, 'h')],
              # a second defect next to a failing conversion / hook: the first error that occurs is the one returned
              ['pkg:custom/', H(3, 'h')], ['pkg:custom/n@', H(3, 'h')], ['pkg:custom/', H(3, 'h'), '/n']]
    for conv_ok in (True, False):
        for hi, hook in enumerate(hooks):
            for parts in inputs:
                if not conv_ok and hi > 1:
                    continue
                qs.append(Query('parse %s conv=%s hook=%s' % (show_template(parts), 'ok' if conv_ok else 'fail', hook), h_parse,
                                {'parts': parts, 'conv_ok': conv_ok, 'hook': hook}, bound='input %s; hook edits %s with free arguments' % (show_template(parts), hook)))
    # algorithm names mixing ASCII and non-ASCII letters written by the hook: lower-cased as a whole, repeated ones refused
    # (one concrete input each: the interesting freedom is in the hook's value)
    for hook in ([('qual', 'checksum', ['A', H(2), ':0A'])], [('qual', 'checksum', [H(2), 'A:'])], [('qual', 'checksum', ['A', ('hole', 'x', 2), ':,a', ('hole', 'x', 2), ':'])],
                 [('qual', 'checksum', [('hole', 'x', 2), 'A:,', ('hole', 'x', 2), 'a:00'])]):
        qs.append(Query('parse pkg:custom/n conv=ok hook=%s' % (hook,), h_parse, {'parts': ['pkg:custom/n'], 'conv_ok': True, 'hook': hook}, bound='input pkg:custom/n; hook edits %s with free arguments' % (hook,)))
        qs.append(Query('build name=⟦1⟧ [] hook=%s' % (hook,), h_build, {'name_n': 1, 'steps': [], 'hook': hook}, bound='builder with free name; hook edits %s' % (hook,)))
    for hook in hooks:
        for steps in ([], [('with_qualifier', 'k', H(1, 'q'))], [('with_namespace', H(1, 'a')), ('with_version', H(1, 'b')), ('with_subpath', H(1, 'c'))]):
            qs.append(Query('build name=⟦1⟧ %s hook=%s' % ([s[0] for s in steps], hook), h_build, {'name_n': 1, 'steps': steps, 'hook': hook},
                            bound='builder with free name and arguments; hook edits %s' % (hook,)))
    qs.append(Query('build name=⟦0⟧ hook=name⟦1⟧', h_build, {'name_n': 0, 'steps': [], 'hook': [('name', H(1))]}, bound='empty name repaired by the hook'))
    for n in lens(3 + deep):
        qs.append(Query('build type_string=⟦%d⟧' % n, h_build, {'name_n': 1, 'steps': [], 'hook': [], 'type_string': H(n, 't')}, bound='user type reporting every %d-byte type string' % n))
    return qs


def native_request(v):
    return v['case']


def confirm(v, resp):
    """concrete protocol check on the real crate's log and answer"""
    import re
    if 'panic' in resp:
        return 'panicked: %s' % resp['panic']
    req = v['case']
    log = resp.get('log', [])
    convs = [x for x in log if x[0] == 'conv']
    fins = [x for x in log if x[0] == 'finish']
    if len(convs) > 1 or len(fins) > 1:
        return 'conversion / hook invoked more than once: %r' % log
    if fins and convs and log.index(fins[0]) < log.index(convs[0]):
        return 'hook before conversion'
    if req['mode'] == 'parse':
        if fins and not req['conv_ok']:
            return 'hook runs although the conversion failed'
        s = bytes.fromhex(req['s'])
        m = re.match(rb'pkg:/*([^/?#]*)', s)
        if convs:
            if not m or not re.fullmatch(rb'[A-Za-z0-9.+-]+', m.group(1)) or bytes.fromhex(convs[0][1]) != m.group(1):
                return 'conversion called with %r for input %r' % (bytes.fromhex(convs[0][1]), s)
            if not req['conv_ok'] and resp.get('err') != 'Conv':
                return 'conversion error not returned unchanged: %r' % resp.get('err')
    else:
        if len(fins) != 1 and 'with_qualifier' not in resp.get('err', ''):
            return 'build() ran the hook %d times' % len(fins)
    hook = req['hook']
    if fins and any(e[0] == 'fail' for e in hook) and hook[0][0] == 'fail' and resp.get('err') != 'Hook':
        return 'hook error not returned unchanged: %r' % resp.get('err')
    if 'ok' in resp:
        o = resp['ok']
        if hx(o['name']) == b'':
            return 'PURL with an empty name produced after the hook'
        if any(hx(x) == b'' for _, x in o['quals']):
            return 'an empty-valued qualifier survives the hook (%r)' % [(hx(k), hx(x)) for k, x in o['quals']]
        for e in hook:
            if e[0] in ('name', 'ns', 'ver', 'sub') and not any(x[0] == 'fail' for x in hook):
                want = bytes.fromhex(e[1])
                got = hx(o[e[0]]) or b''
                last = [x for x in hook if x[0] == e[0]][-1]
                if last is e and got != want:
                    return 'hook wrote %s=%r but the PURL reports %r' % (e[0], want, got)
        ck = dict((hx(k), hx(x)) for k, x in o['quals']).get(b'checksum')
        left = (resp.get('pre') or {}).get('checksum_left')
        if left is not None and not any(e[0] == 'fail' for e in hook):
            if left.get('malformed'):
                return 'a malformed checksum written by the hook is not refused (%r)' % ck
            if ck != hx(left['canonical']):
                return 'checksum written by the hook is reported as %r, its canonical text is %r' % (ck, hx(left['canonical']))
        if ck is not None:
            ents = [e.rsplit(b':', 1) for e in ck.split(b',') if b':' in e]
            if len(ents) != len(ck.split(b',')) or [a for a, _ in ents] != sorted(a for a, _ in ents) or any(len(h) % 2 or not re.fullmatch(rb'[0-9a-f]*', h) for _, h in ents):
                return 'checksum written by the hook is not canonicalised: %r' % ck
        ts = req.get('type_string')
        if ts is not None:
            valid = re.fullmatch(rb'[A-Za-z0-9.+-]+', bytes.fromhex(ts)) is not None
            if valid == o['disp_panics']:
                return 'Display %s for the type string %r' % ('panics' if o['disp_panics'] else 'does not panic', bytes.fromhex(ts))
    want = concrete_expectation(resp.get('pre'), [[e[0]] + [bytes.fromhex(x) for x in e[1:]] for e in hook])
    if want is not None:
        got = 'ok' if 'ok' in resp else resp.get('err')
        if want == 'ok' and got != 'ok':
            return 'refused with %s although what the hook left satisfies the generic checks' % got
        if want != 'ok' and got == 'ok':
            return 'a PURL is produced although %s' % want
        if want == 'Hook' and got != 'Hook':
            return 'hook error not returned unchanged: %r' % got
    return None


def concrete_expectation(pre, hook):
    """'ok' | reason for refusal | None (not determined here), from the parts the hook was given and its edits, all concrete"""
    import re
    if not pre:
        return None
    f = {k: bytes.fromhex(pre[k]) for k in ('ns', 'name', 'ver', 'sub')}
    quals = {bytes.fromhex(k): bytes.fromhex(v) for k, v in pre['quals']}
    for e in hook:
        if e[0] == 'fail':
            return 'Hook'
        if e[0] in f:
            f[e[0]] = e[1]
        elif e[0] == 'qual':
            if not re.fullmatch(rb'[A-Za-z0-9._-]+', e[1]):
                return 'Hook'
            quals[e[1].lower()] = e[2]
    if f['name'] == b'':
        return 'the hook left an empty name'
    ck = quals.get(b'checksum')
    left = pre.get('checksum_left')
    if ck and left is not None:
        # the oracle's reference reading of the value (handles non-ASCII algorithm names with the real char::to_lowercase)
        if left.get('malformed'):
            return 'the hook left a malformed checksum'
        ck = None
    if ck:
        algs = []
        for ent in ck.split(b','):
            if b':' not in ent:
                return 'the hook left a malformed checksum'
            a, h = ent.rsplit(b':', 1)
            if any(x >= 0x80 for x in a):
                return None          # non-ASCII algorithm names: lower-casing is not re-done here
            if len(h) % 2 or not re.fullmatch(rb'[0-9A-Fa-f]*', h) or a.lower() in algs:
                return 'the hook left a malformed checksum'
            algs.append(a.lower())
    return 'ok'


def finding_role(v, resp):
    return 'other'


def vacuity(results):
    probs = []
    tags = {}
    for r in results:
        for k, n in r['outcomes'].items():
            tags[k] = tags.get(k, 0) + n
    for w in ('accepted', 'built', 'conv-failed', 'hook-failed', 'refused-after-hook', 'rejected-before-hook', 'documented-panic'):
        if not tags.get(w):
            probs.append('no leaf with outcome ' + w)
    return probs


LEVEL_TEXT = ('bounded symbolic model checking of the real MIR with the type parameter instantiated by a model shape: purl\'s from_str, build and Display are interpreted unchanged; '
              'the shape\'s conversion and finishing hook are stubs that log their calls and apply one member of a family of edits (fail, clear name, overwrite fields, insert empty / '
              'valid / checksum qualifiers) with free arguments; the call protocol is asserted on the log and the result against a reference of `hook first, generic checks after`; '
              'the same family exists natively (native/src/shape.rs) for witness replay and confirmation')
ASSUMPTIONS = ['user-written implementations are represented by the stated family of behaviours (conversion ok/fail x hook edits); other implementations are outside the claim']
