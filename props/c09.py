"""C09 -- the builder is faithful and serialisation loses nothing."""
from .std import *
from . import ref as R_
from .c08 import rule
from mirsym.models import seq_cmp
from .cksum import RefCk

ID = 'C09'
PROGS = ['default']


def segs(L, b, dots):
    out = []
    if b is None:
        return out
    for s in R_.split(L, b, 0x2F):
        if len(s) == 0 or (dots and R_.is_dots(L, s)):
            continue
        out.append(s)
    return out


def segs_eq_term(a, b):
    if len(a) != len(b):
        return False
    return b_and(*[bytes_eq_term(x, y) for x, y in zip(a, b)])


def opt_eq(L, what, got, want):
    """got: accessor (None | bytes); want: last set bytes ('' = unset)"""
    w = want if want else None
    if (got is None) != (w is None):
        L.fail('%s: accessor reports %s but %s was set' % (what, 'nothing' if got is None else 'a value', 'nothing' if w is None else 'a value'))
        return
    if got is None:
        return
    if len(got) != len(w):
        L.fail('%s: accessor differs in length from what was set' % what)
        return
    L.check('%s == what was last set' % what, bytes_eq_term(got, w))


class RefB:
    def __init__(self, ty, name):
        self.ty, self.name, self.ns, self.ver, self.sub = ty, name, [], [], []
        self.q = []          # [(lower key, value)] in insertion order
        self.err = None

    def apply(self, L, m, args):
        if self.err:
            return
        if m == 'with_namespace': self.ns = args[0]
        elif m == 'with_name': self.name = args[0]
        elif m == 'with_version': self.ver = args[0]
        elif m == 'with_subpath': self.sub = args[0]
        elif m == 'without_namespace': self.ns = []
        elif m == 'without_version': self.ver = []
        elif m == 'without_subpath': self.sub = []
        elif m == 'without_qualifiers': self.q = []
        elif m == 'with_package_type': self.ty = args[0]
        elif m == 'set_namespace': self.ns = args[0]
        elif m == 'set_name': self.name = args[0]
        elif m == 'set_version': self.ver = args[0]
        elif m == 'set_subpath': self.sub = args[0]
        elif m == 'repository_url':
            self.q = [(a, b) for a, b in self.q if bytes(a) != b'repository_url' or not all(isinstance(x, int) for x in a)] + [(list(b'repository_url'), args[0])]
        elif m == 'no_repository_url':
            self.q = [(a, b) for a, b in self.q if not (all(isinstance(x, int) for x in a) and bytes(a) == b'repository_url')]
        elif m == 'no_checksum':
            self.q = [(a, b) for a, b in self.q if not (all(isinstance(x, int) for x in a) and bytes(a) == b'checksum')]
        elif m in ('with_qualifier', 'without_qualifier'):
            k = args[0]
            valid = len(k) > 0 and all(in_set(L.I, x, R_.KEY_CH) for x in k)
            if not valid:
                if m == 'with_qualifier':
                    self.err = 'with_qualifier:InvalidQualifier'
                return
            lk = R_.lower(L, k)
            self.q = [(a, b) for a, b in self.q if not R_.eq(L, a, lk)]
            if m == 'with_qualifier':
                self.q.append((lk, args[1]))

    def quals_sorted(self, L):
        out = []
        for k, v in self.q:
            if len(v) == 0:
                continue
            pos = 0
            while pos < len(out) and seq_cmp(L.I, out[pos][0], k) < 0:
                pos += 1
            out.insert(pos, (k, v))
        return out


def run_script(L, T, ty, name, steps, via='ctor'):
    """-> ('err', name) | ('ok', p)"""
    I = L.I
    if via == 'new':
        r = p_new(I, T, mk_type(I, T, ty), name)
        return ('err', err_name(r.fields[0])) if r.variant == 'Err' else ('ok', r.fields[0])
    b = b_parsed(I, T, ty) if via == 'parsed' else b_new(I, T, mk_type(I, T, ty), name, via)
    for m, *args in steps:
        a2 = [mk_type(I, T, args[0])] if m == 'with_package_type' else args
        b = b_call(I, T, b, m, *a2)
        if m == 'with_qualifier':
            if b.variant == 'Err':
                return 'err', 'with_qualifier:' + err_name(b.fields[0])
            b = b.fields[0]
    r = b_build(I, T, b)
    if r.variant == 'Err':
        return 'err', err_name(r.fields[0])
    return 'ok', r.fields[0]


def materialise(L, ty, name, steps):
    def mat(x):
        if isinstance(x, tuple) and x and x[0] == 'hole':
            b = L.sym_bytes(x[1], x[2])
            L.assume_utf8(b)
            return b
        return list(x.encode() if isinstance(x, str) else x)
    return mat(ty), mat(name), [(s[0],) + tuple(mat(a) for a in s[1:]) for s in steps]


def h_seq(L, T, ty, name, steps, via='ctor'):
    I = L.I
    tyb, nm, st = materialise(L, ty, name, steps)
    req = {'op': 'build_typed' if T == 'Purl' else 'build', 'T': KINDS[T][1], 'type': SymStr(tyb), 'name': SymStr(nm), 'via': via, 'steps': [[m] + [SymStr(a) for a in args] for m, *args in st]}
    L.expect_native(req, {})
    R = RefB(tyb, nm)
    if via == 'parsed':          # the builder starts from what `pkg:<type>/ns/n@1?a=1&c=3#s` holds
        for m, *args in PARSED_STEPS:
            R.apply(L, m, [list(a.encode()) for a in args])
    for m, *args in st:
        R.apply(L, m, args)
    try:
        kind, res = run_script(L, T, tyb, nm, st, via)
    except Panic as e:
        L.fail('panic: %s' % e.msg)
        return 'panic'
    # ---- when must build() succeed / fail
    tyname = bytes(R.ty).decode() if T == 'Purl' else None
    type_ok = T == 'Purl' or (len(R.ty) > 0 and all(in_set(I, x, R_.TYPE_CH) for x in R.ty))
    final_name = rule(L, tyname, R.name) if T == 'Purl' else R.name
    ns_segs = segs(L, R.ns, False)
    must_fail = None
    if R.err:
        must_fail = R.err
    elif not type_ok:
        must_fail = 'InvalidPackageType'
    elif tyname == 'maven' and len(R.ns) == 0:
        must_fail = 'MissingRequiredField(Namespace)'
    elif len(final_name) == 0:
        must_fail = 'Parse(MissingRequiredField(Name))' if T == 'Purl' else 'MissingRequiredField(Name)'
    unspecified = tyname == 'maven' and len(R.ns) > 0 and not ns_segs and not R.err     # namespace made of '/' only
    ck_canon = None
    for k, v in R.q:
        if all(isinstance(x, int) for x in k) and bytes(k) == b'checksum' and len(v) > 0 and must_fail is None:
            okc, entries = R_.read_checksum(L, v)
            if not okc:
                must_fail = 'Parse(InvalidQualifier)' if T == 'Purl' else 'InvalidQualifier'
            else:
                rc = RefCk()
                rc.e = [(a, list(h)) for a, h in entries]
                ck_canon = rc.canonical(L)[1]
    if kind == 'err':
        L.expect_native(req, {'err': res})
        if must_fail is None and not unspecified:
            L.fail('build() fails with %s although name, type, keys and type rule are fine' % res)
        # which error is returned when build() must fail is not fixed by C09 (C05 / C08 / C14 speak about error identity)
        return 'rejected'
    if must_fail is not None:
        L.expect_native(req, {'ok': {}})
        L.fail('build() succeeds although it must fail with %s' % must_fail)
        return 'built'
    p = res
    try:
        acc = accessors(I, T, p)
        disp = display(I, T, p)
    except Panic as e:
        L.fail('panic: %s' % e.msg)
        return 'panic'
    L.expect_native(req, {'ok': obs_expect(acc, disp)})
    # ---- accessors return what was last set
    if T != 'Purl':
        opt_eq(L, 'type', acc['type'], R_.lower(L, R.ty))
    opt_eq(L, 'name', acc['name'], final_name)
    opt_eq(L, 'version', acc['ver'], R.ver)
    L.check('namespace segments == what was set', segs_eq_term(segs(L, acc['ns'], False), ns_segs))
    want_sub = segs(L, R.sub, True)
    L.check('subpath segments == what was set', segs_eq_term(segs(L, acc['sub'], True), want_sub))
    wq = R.quals_sorted(L)
    if ck_canon is not None:
        wq = [(k, ck_canon if (all(isinstance(x, int) for x in k) and bytes(k) == b'checksum') else v) for k, v in wq]
    if any(len(a[1]) != len(b[1]) for a, b in zip(wq, acc['quals'])):
        L.fail('a qualifier value differs in length from what was set')
        return 'built'
    if len(wq) != len(acc['quals']):
        L.fail('qualifiers differ from what was set')
    else:
        L.check('qualifiers == what was last set (keys lower-cased, empty values dropped)',
                b_and(*[b_and(bytes_eq_term(k1, k2), bytes_eq_term(v1, v2)) for (k1, v1), (k2, v2) in zip(acc['quals'], wq)]))
    # ---- the string form is accepted and yields the same field values
    try:
        r2 = from_str(I, T, disp)
    except Panic as e:
        L.fail('panic parsing the string form: %s' % e.msg)
        return 'built'
    if r2.variant == 'Err':
        L.fail('the string form of a built PURL is rejected with %s' % err_name(r2.fields[0]))
        return 'built'
    a2 = accessors(I, T, r2.fields[0])
    for f, nm_ in (('type', 'type'), ('name', 'name'), ('ver', 'version')):
        x, y = a2[f], acc[f]
        if (x is None) != (y is None) or (x is not None and len(x) != len(y)):
            L.fail('%s is lost or altered by to_string() + from_str()' % nm_)
        elif x is not None:
            L.check('%s survives to_string() + from_str()' % nm_, bytes_eq_term(x, y))
    L.check('namespace survives to_string() + from_str()', segs_eq_term(segs(L, a2['ns'], False), segs(L, acc['ns'], False)))
    L.check('subpath survives to_string() + from_str()', segs_eq_term(segs(L, a2['sub'], True), segs(L, acc['sub'], True)))
    if len(a2['quals']) != len(acc['quals']):
        L.fail('qualifiers are lost, merged or split by to_string() + from_str()')
    else:
        L.check('qualifiers survive to_string() + from_str()',
                b_and(*[b_and(bytes_eq_term(k1, k2), bytes_eq_term(v1, v2)) for (k1, v1), (k2, v2) in zip(a2['quals'], acc['quals'])]))
    return 'built'


def h_commute(L, T, ty, name, s1, s2):
    """two calls on different fields in both orders give the same outcome"""
    I = L.I
    tyb, nm, st = materialise(L, ty, name, [s1, s2])
    req = {'op': 'build', 'T': KINDS[T][1], 'type': SymStr(tyb), 'name': SymStr(nm), 'steps': [[m] + [SymStr(a) for a in args] for m, *args in st]}
    L.expect_native(req, {})
    try:
        k1, r1 = run_script(L, T, tyb, nm, st)
        k2, r2 = run_script(L, T, tyb, nm, st[::-1])
    except Panic as e:
        L.fail('panic: %s' % e.msg)
        return 'panic'
    if k1 != k2 or (k1 == 'err' and r1 != r2):
        L.fail('calls on different fields do not commute: %s vs %s' % ((k1, r1 if k1 == 'err' else ''), (k2, r2 if k2 == 'err' else '')))
        return 'differ'
    if k1 == 'err':
        L.expect_native(req, {'err': r1})
        return 'rejected'
    if not I.ctx.decide(purl_eq(I, T, r1, r2)):
        L.fail('calls on different fields do not commute: the two orders build different PURLs')
    d1, d2 = display(I, T, r1), display(I, T, r2)
    L.check('both orders print the same string', bytes_eq_term(d1, d2))
    L.expect_native(req, {'ok': {'disp': SymStr(d1)}})
    return 'built'


def queries(tier):
    th = tier == 'thorough'
    qs = []
    h1, g1 = ('hole', 'h', 1), ('hole', 'g', 1)

    def H(n, nm='h'):
        return ('hole', nm, n)

    def addseq(T, ty, name, steps, via='ctor'):
        txt = show_steps(ty, name, steps)
        if via == 'parsed':
            txt = "parse('pkg:%s/ns/n@1?a=1&c=3#s').into_builder()" % ty + txt[txt.index(')') + 1:]
        elif via != 'ctor':
            txt = txt.replace('new(', 'GenericPurl::%s(' % via, 1)
        qs.append(Query('%s %s' % (T, txt), h_seq, {'T': T, 'ty': ty, 'name': name, 'steps': steps, 'via': via},
                        bound='builder script %s with every valid-UTF-8 string of the stated size in each hole' % txt))
    SET = ['with_namespace', 'with_name', 'with_version', 'with_subpath']
    for T, ty in (('String', 't'), ('Purl', 'npm'), ('Purl', 'maven'), ('Purl', 'pypi')):
        deep = T == 'String'
        m = (4 if th else 3) if deep else 2
        for meth in SET:
            for n in lens(m):
                addseq(T, ty, 'n', [(meth, H(n))] + ([('with_namespace', 'g')] if ty == 'maven' and meth != 'with_namespace' else []))
                if deep:
                    addseq(T, ty, 'n', [('with_namespace', 'ns'), ('with_version', '1'), ('with_qualifier', 'k', 'v'), ('with_subpath', 's'), (meth, H(min(n, 3)))])
        for n in lens(m):
            addseq(T, ty, H(n), [('with_namespace', 'g')] if ty == 'maven' else [])
            # the other entry points: GenericPurl::new (no further calls) and GenericPurl::builder
            addseq(T, ty, H(n), [], via='new')
            addseq(T, ty, H(n), [('with_namespace', 'g'), ('with_version', H(1, 'v'))], via='builder')
        for n in lens(3 if deep else 2):
            addseq(T, ty, 'n', [('with_namespace', 'g'), ('with_qualifier', 'k', H(n))])
            if n:
                addseq(T, ty, 'n', [('with_namespace', 'g'), ('with_qualifier', H(n), 'v')])
        # later calls override earlier ones, field by field; unsetting
        for meth in SET:
            addseq(T, ty, 'n', [('with_namespace', 'g'), (meth, H(1, 'a')), (meth, H(1, 'b'))])
            if meth != 'with_name':
                addseq(T, ty, 'n', [('with_namespace', 'g'), (meth, H(2, 'a')), (meth.replace('with_', 'without_'),)])
        addseq(T, ty, 'n', [('with_namespace', 'g'), ('with_qualifier', H(1, 'a'), H(1, 'v')), ('with_qualifier', H(1, 'b'), H(1, 'w'))])
        addseq(T, ty, 'n', [('with_namespace', 'g'), ('with_qualifier', H(1, 'a'), 'v'), ('without_qualifier', H(1, 'b'))])
        addseq(T, ty, 'n', [('with_namespace', 'g'), ('with_qualifier', H(2, 'a'), 'v'), ('without_qualifiers',)])
        # unsetting with a three-byte key (non-ASCII look-alikes of a stored one-letter key are invalid keys: nothing may be removed)
        addseq(T, ty, 'n', [('with_namespace', 'g'), ('with_qualifier', 'k', 'v'), ('with_qualifier', 's', 'w'), ('without_qualifier', H(3, 'b'))])
        # edit-and-rebuild: a parsed PURL turned back into a builder, one field / qualifier changed
        for meth in SET:
            addseq(T, ty, 'n', [(meth, H(2 if deep else 1))], via='parsed')
        addseq(T, ty, 'n', [('with_qualifier', H(1, 'a'), H(1, 'v'))], via='parsed')
        addseq(T, ty, 'n', [('without_qualifier', H(1, 'a'))], via='parsed')
        addseq(T, ty, 'n', [('without_namespace',), ('without_version',), ('without_subpath',), ('with_qualifier', 'b', H(1, 'v'))] if ty != 'maven' else [('without_version',), ('without_subpath',)], via='parsed')
        if deep:
            # many qualifiers, then unsetting / overriding one by a free key
            MANY = [('with_namespace', 'g')] + [('with_qualifier', k, v) for k, v in (('c', '1'), ('a', '2'), ('e', '3'), ('b', '4'), ('d', '5'))]
            addseq(T, ty, 'n', MANY + [('without_qualifier', H(1, 'a'))])
            addseq(T, ty, 'n', MANY + [('without_qualifier', H(1, 'a')), ('with_qualifier', H(1, 'b'), 'x')])
            addseq(T, ty, 'n', MANY + [('with_qualifier', H(1, 'a'), H(1, 'v'))])
        if th:
            for m1 in SET:
                for m2 in SET:
                    if m1 < m2:
                        addseq(T, ty, 'n', [('with_namespace', 'g'), (m1, H(2, 'a')), (m2, H(2, 'b'))])
    # the checksum key: empty = unset, malformed = refused, otherwise canonicalised
    for T, ty in (('String', 't'), ('Purl', 'gem')):
        for n in lens(4 if th else 3):
            addseq(T, ty, 'n', [('with_qualifier', 'checksum', H(n))])
        addseq(T, ty, 'n', [('with_qualifier', 'checksum', 'sha1:00ff'), ('with_qualifier', 'CHECKSUM', H(1))])
        addseq(T, ty, 'n', [('with_qualifier', 'CheckSum', 'B:00,a:'), ('with_qualifier', 'k', H(1))])
        addseq(T, ty, 'n', [('with_qualifier', 'checksum', H(2)), ('without_qualifier', 'Checksum')])
    # direct edits of the public parts and the typed-qualifier setters
    for T, ty in (('String', 't'), ('Purl', 'npm')):
        for meth in ('set_namespace', 'set_name', 'set_version', 'set_subpath'):
            for n in lens(3 if th else 2):
                addseq(T, ty, 'n', [('with_namespace', 'g'), (meth, H(n))])
        addseq(T, ty, 'n', [('with_version', H(1, 'a')), ('set_version', H(1, 'b'))])
        addseq(T, ty, 'n', [('set_subpath', H(2, 'a')), ('with_subpath', H(1, 'b'))])
        for n in lens(3 if th else 2):
            addseq(T, ty, 'n', [('repository_url', H(n))])
        addseq(T, ty, 'n', [('with_qualifier', 'Repository_URL', H(1, 'a')), ('repository_url', H(1, 'b'))])
        addseq(T, ty, 'n', [('repository_url', H(2, 'a')), ('no_repository_url',)])
        addseq(T, ty, 'n', [('with_qualifier', 'checksum', H(2, 'a')), ('no_checksum',)])
    for n in lens(3 if th else 2):
        addseq('String', H(n, 't'), 'n', [])
        addseq('String', 't', 'n', [('with_package_type', H(n, 't'))])
    for ty2 in ('cargo', 'gem', 'golang', 'nuget'):
        addseq('Purl', ty2, H(2), [('with_namespace', H(1, 'g'))])
    # name rules on names mixing ASCII and non-ASCII letters (3-4 bytes)
    for ty2 in ('nuget', 'pypi'):
        for n in ((3, 4) if th else (3,)):
            addseq('Purl', ty2, H(n), [])
            addseq('Purl', ty2, 'n', [('with_name', H(n))])
    # commutation of calls on different fields
    ops = [('with_namespace', H(1, 'a')), ('with_name', H(1, 'b')), ('with_version', H(1, 'c')), ('with_subpath', H(1, 'd')),
           ('with_qualifier', H(1, 'k'), H(1, 'v'))]
    for T, ty in (('String', 't'), ('Purl', 'maven')):
        for i in range(len(ops)):
            for j in range(i + 1, len(ops)):
                qs.append(Query('%s commute %s / %s' % (T, ops[i][0], ops[j][0]), h_commute, {'T': T, 'ty': ty, 'name': 'n', 's1': ops[i], 's2': ops[j]},
                                bound='both orders of %s and %s with one free byte per argument' % (ops[i][0], ops[j][0])))
    return qs


def native_request(v):
    return v['case']


def norm(b, dots):
    if b is None:
        return []
    return [s for s in b.split(b'/') if s and not (dots and s in (b'.', b'..'))]


def confirm(v, resp):
    """re-evaluate C09 on the real crate's answer for the concrete script"""
    import re
    if 'panic' in resp:
        return 'panicked: %s' % resp['panic']
    req = v['case']
    T = req['T']
    f = {'type': bytes.fromhex(req['type']), 'name': bytes.fromhex(req['name']), 'ns': b'', 'ver': b'', 'sub': b''}
    q, err = {}, None
    for st in req['steps']:
        m, a = st[0], [bytes.fromhex(x) for x in st[1:]]
        if err:
            break
        if m in ('with_namespace', 'with_name', 'with_version', 'with_subpath'):
            f[{'with_namespace': 'ns', 'with_name': 'name', 'with_version': 'ver', 'with_subpath': 'sub'}[m]] = a[0]
        elif m in ('without_namespace', 'without_version', 'without_subpath'):
            f[{'without_namespace': 'ns', 'without_version': 'ver', 'without_subpath': 'sub'}[m]] = b''
        elif m == 'with_package_type':
            f['type'] = a[0]
        elif m in ('set_namespace', 'set_name', 'set_version', 'set_subpath'):
            f[{'set_namespace': 'ns', 'set_name': 'name', 'set_version': 'ver', 'set_subpath': 'sub'}[m]] = a[0]
        elif m == 'repository_url':
            q[b'repository_url'] = a[0]
        elif m == 'no_repository_url':
            q.pop(b'repository_url', None)
        elif m == 'no_checksum':
            q.pop(b'checksum', None)
        elif m == 'without_qualifiers':
            q = {}
        elif m in ('with_qualifier', 'without_qualifier'):
            if not re.fullmatch(rb'[A-Za-z0-9._-]+', a[0]):
                if m == 'with_qualifier':
                    err = 'with_qualifier:InvalidQualifier'
                continue
            q.pop(a[0].lower(), None)
            if m == 'with_qualifier':
                q[a[0].lower()] = a[1]
    if 'label' in v and 'commute' in v.get('label', ''):
        return 'calls on different fields do not commute (%s)' % v['label']
    ck = q.get(b'checksum')
    ck_bad = False
    if ck:
        ents = []
        for e in ck.split(b','):
            if b':' not in e:
                ck_bad = True
                break
            a, h = e.rsplit(b':', 1)
            if len(h) % 2 or not re.fullmatch(rb'[0-9a-fA-F]*', h):
                ck_bad = True
            ents.append((a.decode('utf8', 'replace').lower().encode(), h.lower()))
        if not ck_bad and len({a for a, _ in ents}) != len(ents):
            ck_bad = True
        if not ck_bad:
            q[b'checksum'] = b','.join(a + b':' + h for a, h in sorted(ents))
    if 'ok' not in resp:
        if ck_bad and not err:
            return None if 'InvalidQualifier' in resp.get('err', '') else 'malformed checksum refused with %s' % resp.get('err')
        if err:
            return None
        type_ok = T == 'Purl' or re.fullmatch(rb'[A-Za-z0-9.+-]+', f['type'])
        if not type_ok or f['name'] == b'' or (f['type'].lower() == b'maven' and T == 'Purl' and not norm(f['ns'], False)):
            return None
        if T == 'Purl' and f['type'] == b'pypi' and False:
            return None
        return 'build() fails with %s although name, type, keys and type rule are fine' % resp.get('err')
    o = resp['ok']
    if err:
        return 'build() succeeds although with_qualifier had to fail'
    if ck_bad:
        return 'build() succeeds with a malformed checksum %r' % ck
    if f['name'] == b'':
        return 'PURL with an empty name built'
    if T != 'Purl' and hx(o['type']) != f['type'].lower():
        return 'type accessor %r differs from %r' % (hx(o['type']), f['type'].lower())
    if T == 'Purl' and f['type'] == b'maven' and f['ns'] == b'':
        return 'maven PURL without namespace built'
    if (hx(o['ver']) or b'') != f['ver']:
        return 'version accessor differs from what was set'
    if T == 'Purl' and 'expect_lower' in resp and not any(st[0] == 'with_package_type' for st in req['steps']):
        want = hx(resp['expect_lower']) if f['type'] == b'nuget' else hx(resp['expect_pypi']) if f['type'] == b'pypi' else f['name']
        if hx(o['name']) != want:
            return '%s name %r comes out as %r, the type\'s rule gives %r' % (f['type'].decode(), f['name'].decode('utf8', 'replace'), hx(o['name']).decode('utf8', 'replace'), want.decode('utf8', 'replace'))
    elif T != 'Purl' and hx(o['name']) != f['name']:
        return 'name accessor %r differs from what was set %r' % (hx(o['name']), f['name'])
    if norm(hx(o['ns']), False) != norm(f['ns'], False) or norm(hx(o['sub']), True) != norm(f['sub'], True):
        return 'namespace / subpath accessor differs from what was set'
    wq = sorted((k, x) for k, x in q.items() if x)
    if [(hx(k), hx(x)) for k, x in o['quals']] != wq:
        return 'qualifiers %r differ from what was set %r' % ([(hx(k), hx(x)) for k, x in o['quals']], wq)
    rt = o['rt']
    if rt is not None and not rt.get('ok'):
        return 'built PURL prints %r, which the parser refuses with %s' % (hx(o['disp']).decode('utf8', 'replace'), rt.get('err'))
    back = (rt or {}).get('back')
    if back:
        for fld in ('type', 'name', 'ver'):
            if back[fld] != o[fld]:
                return '%s %r reads back from %r as %r' % (fld, o[fld] and hx(o[fld]), hx(o['disp']).decode('utf8', 'replace'), back[fld] and hx(back[fld]))
        hn = lambda x: hx(x) if x is not None else None
        if norm(hn(back['ns']), False) != norm(hn(o['ns']), False) or norm(hn(back['sub']), True) != norm(hn(o['sub']), True):
            return 'namespace / subpath of %r read back as %r / %r' % (hx(o['disp']).decode('utf8', 'replace'), back['ns'] and hx(back['ns']), back['sub'] and hx(back['sub']))
        if back['quals'] != o['quals']:
            return 'qualifiers of %r read back as %r' % (hx(o['disp']).decode('utf8', 'replace'), [(hx(k), hx(x)) for k, x in back['quals']])
    return None


def finding_role(v, resp):
    req = v['case']
    if req.get('T') == 'Purl' and bytes.fromhex(req['type']) == b'maven' and 'ok' in resp and norm(hx(resp['ok']['ns']), False) == []:
        return 'maven-namespace-without-segment'
    return 'other'


vacuity = std_vacuity
LEVEL_TEXT = ('bounded symbolic model checking of the real MIR: builder scripts (every setter, unsetter, qualifier call, type change; one to three calls) '
              'with free valid-UTF-8 arguments are interpreted next to a reference dictionary of last-set fields; `build() fails exactly when ...`, '
              'accessor faithfulness, commutation of calls on different fields and the parse-back of the printed string are decided per path by the solver')
