"""C12 -- checksum qualifier: one canonical text, typed round trip, order independence."""
from .cksum import *
from mirsym.models import encode_char

ID = 'C12'
PROGS = ['default']
COMMA = tt(b',')


def alg_bytes(L, scalars):
    out = []
    for ch in scalars:
        out.extend(encode_char(L.I, ch))
    return out


def chk_entry_views(L, ck, R):
    """algorithms(), iter() and `&Checksum: IntoIterator` list exactly the reference entries (read as a set: the order in which a
    HashMap yields them is irrelevant here and is not forked)"""
    I = L.I
    I.fixed_order = True
    try:
        names = I.call("Checksum::<'_>::algorithms", [Ref([ck], 0)]).drain(I)
        its = []
        for how in ("Checksum::<'_>::iter", "<&Checksum<'_> as IntoIterator>::into_iter"):
            it = I.call(how, [Ref([ck], 0)])
            got = []
            while True:
                nx = I.call("<ChecksumIter<'_> as Iterator>::next", [Ref([it], 0)])
                if nx.variant == 'None':
                    break
                k, v = nx.fields[0].fields
                got.append((list(sbytes(k)), list(sbytes(I.call("ChecksumValue::<'_>::raw", [Ref([v], 0)])))))
            its.append(got)
    finally:
        I.fixed_order = False
    if len(names) != len(R.e) or any(len(g) != len(R.e) for g in its):
        L.fail('algorithms() / iter() do not list as many entries as were inserted')
        return
    for nm in names:
        if R.find(L, [zx(x) for x in chars_of(I, list(sbytes(nm)))]) is None:
            L.fail('algorithms() lists a name that is not a lower-cased inserted algorithm')
    for got in its:
        for k, raw in got:
            i = R.find(L, [zx(x) for x in chars_of(I, k)])
            if i is None:
                L.fail('iter() lists a name that is not a lower-cased inserted algorithm')
            elif len(raw) != len(R.e[i][1]):
                L.fail('iter() lists another value than the one inserted')
            else:
                L.check('iter() lists the inserted raw value', bytes_eq_term(raw, R.e[i][1]))


def h_seq(L, ops, alen, vlen):
    """operation sequence on the typed value; every HashMap iteration order is a fork"""
    I = L.I
    steps = []
    req = {'op': 'checksum', 'from': None, 'steps': steps}
    L.expect_native(req, {})
    ck = ck_default(I)
    R = RefCk()
    inserted = []        # (alg bytes as given, data bytes) of `insert` calls still current
    try:
        for i, (op, al) in enumerate(zip(ops, alen)):
            if isinstance(al, tuple) and al[0] == 'pre':    # ('pre', b'A', n): fixed ASCII prefix + n free bytes
                a = list(al[1]) + L.sym_bytes('a%d_' % i, al[2])
                for x in a:
                    if not isinstance(x, int):
                        L.assume(z3.Not(x == 0x2C))
                L.assume_utf8(a)
            elif isinstance(al, tuple):          # ('flip', j): the j-th algorithm name in another letter case
                base = algs[al[1]]
                m = L.sym_bytes('m%d_' % i, 1)[0]
                a = [z3.If(z3.And(z3.Extract(k % 8, k % 8, m) == 1, z3.Or(z3.And(z3.UGE(x, 0x61), z3.ULE(x, 0x7A)), z3.And(z3.UGE(x, 0x41), z3.ULE(x, 0x5A)))), x ^ 0x20, x)
                     if not isinstance(x, int) else x for k, x in enumerate(base)]
                a = [z3.simplify(x) if not isinstance(x, int) else x for x in a]
            else:
                a = L.sym_bytes('a%d_' % i, al)
                for x in a:
                    L.assume(z3.Not(x == 0x2C))
                L.assume_utf8(a)
            if i == 0:
                algs = []
            algs.append(a)
            if op == 'insert_raw':
                v = L.sym_bytes('v%d_' % i, vlen)
                L.assume_utf8(v)
                steps.append(['insert_raw', SymStr(a), SymStr(v)])
                ck_insert_raw(I, ck, a, v)
                R.insert_raw(L, a, v)
            elif op == 'insert':
                v = L.sym_bytes('v%d_' % i, vlen)
                steps.append(['insert', SymStr(a), SymStr(v)])
                ck_insert(I, ck, a, v)
                hexed = []
                for x in v:
                    for nib in ((z3.LShR(x, 4), x & 15) if not isinstance(x, int) else (x >> 4, x & 15)):
                        hexed.append(z3.simplify(z3.If(z3.ULT(nib, 10), nib + 0x30, nib + 0x57)) if not isinstance(nib, int) else b'0123456789abcdef'[nib])
                R.insert_raw(L, a, hexed)
                inserted.append((a, v))
            elif op == 'remove':
                steps.append(['remove', SymStr(a)])
                ck_remove(I, ck, a)
                R.remove_exact(L, a)
        # decoding an entry returns exactly the inserted bytes (queried by the lower-cased name)
        for a, v in inserted:
            la = alg_bytes(L, lower_chars(L, a))
            want = R.get_exact(L, la)
            g = ck_get(I, ck, la)
            if want is None:
                continue
            if g.variant != 'Ok' or g.fields[0].variant != 'Some':
                continue        # the entry was replaced by a raw value that is not hex: nothing promised
            data = g.fields[0].fields[0].items
            ok2, _ = True, None
            # only when the current raw text is the hex of v (not overwritten since)
            hexv = []
            for x in v:
                for nib in ((z3.LShR(x, 4), x & 15) if not isinstance(x, int) else (x >> 4, x & 15)):
                    hexv.append(z3.simplify(z3.If(z3.ULT(nib, 10), nib + 0x30, nib + 0x57)) if not isinstance(nib, int) else b'0123456789abcdef'[nib])
            if len(want) == len(hexv) and I.ctx.decide(bytes_eq_term(want, hexv)):
                if len(data) != len(v):
                    L.fail('get() returns a different number of bytes than inserted')
                else:
                    L.check('get() returns exactly the inserted bytes', bytes_eq_term(data, v))
        chk_entry_views(L, ck, R)
        ok, canon = R.canonical(L)
        r = ck_text(I, clone_val(ck))
    except Panic as e:
        L.fail('panic: %s' % e.msg)
        return 'panic'
    if r.variant == 'Err':
        L.expect_native(req, {'text': {'err': err_name(r.fields[0])}})
        if ok:
            L.fail('serialisation refuses a checksum whose entries are all even-length hex')
        return 'text-refused'
    text = list(sbytes(r.fields[0]))
    L.expect_native(req, {'text': {'ok': SymStr(text)}})
    if not ok:
        L.fail('serialisation accepts an entry that is not an even number of hex digits')
        return 'text'
    if len(text) != len(canon):
        L.fail('text form differs in length from the canonical text (sorted by lower-cased algorithm, lower-case hex)')
        return 'text'
    L.check('text form == canonical text for this iteration order', bytes_eq_term(text, canon))
    # parses back to the same entries
    try:
        r2 = ck_from(I, text)
    except Panic as e:
        L.fail('panic: %s' % e.msg)
        return 'panic'
    if len(R.e) == 0:
        return 'text'       # the empty checksum has the empty text, which is not a checksum text
    if r2.variant == 'Err':
        L.fail('the text form does not parse back: %s' % err_name(r2.fields[0]))
        return 'text'
    ck2 = r2.fields[0]
    n2 = I.call("HashMap::<SmartString<LazyCompact>, Cow<'_, str>>::len", [Ref(ck2.fields, 0)])
    if n2 != len(R.e):
        L.fail('parsing the text form back yields %d entries instead of %d' % (n2, len(R.e)))
    for a, raw in R.e:
        g = ck_get_raw(I, ck2, alg_bytes(L, a))
        if g.variant == 'None':
            L.fail('an entry is missing after parsing the text form back')
        else:
            L.check('parsed-back entry has the same (lower-cased) hex text', bytes_eq_term(list(sbytes(g.fields[0])), R_.lower(L, raw)))
    return 'text'


def h_purl(L, T, parts):
    """a PURL with a checksum qualifier in any spelling carries the one canonical text; typed read-back agrees"""
    I = L.I
    s, _ = template_bytes(L, parts)
    L.assume_utf8(s)
    req = {'op': 'parse', 'T': KINDS[T][1], 's': SymStr(s)}
    L.expect_native(req, {})
    try:
        r = from_str(I, T, s)
    except Panic as e:
        L.fail('panic: %s' % e.msg)
        return 'panic'
    if r.variant == 'Err':
        L.expect_native(req, {'err': err_name(r.fields[0])})
        return 'rejected'
    p = r.fields[0]
    acc = accessors(I, T, p)
    L.expect_native(req, {'ok': obs_expect(acc)})
    val = None
    for k, v in acc['quals']:
        if all(isinstance(x, int) for x in k) and bytes(k) == b'checksum':
            val = v
    Rd = R_.read(L, s)
    raw = None
    for k, v in Rd.quals:
        if all(isinstance(x, int) for x in k) and bytes(k) == b'checksum':
            raw = v
    if raw is None:
        if val is not None:
            L.fail('a checksum qualifier appears although none was written')
        return 'no-checksum'
    if val is None:
        L.fail('the checksum qualifier is lost')
        return 'accepted'
    okc, entries = R_.read_checksum(L, raw)
    if not okc:
        L.fail('a malformed checksum was accepted')
        return 'accepted'
    ref = RefCk()
    ref.e = [(a, list(h)) for a, h in entries]
    ok, canon = ref.canonical(L)
    if len(canon) != len(val):
        L.fail('checksum text differs in length from the canonical text')
        return 'accepted'
    L.check('checksum qualifier == canonical text of its entries', bytes_eq_term(val, canon))
    # typed read-back
    q = I.call('GenericPurl::<%s>::qualifiers' % tytext(T), [Ref([p], 0)])
    t = I.call("Qualifiers::try_get_typed::<'_, Checksum<'_>>", [q])
    if t.variant != 'Ok' or t.fields[0].variant != 'Some':
        L.fail('typed read-back of the checksum fails')
        return 'accepted'
    ck = t.fields[0].fields[0]
    for a, h in entries:
        g = ck_get_raw(I, ck, alg_bytes(L, a))
        if g.variant == 'None':
            L.fail('typed read-back misses an entry')
        else:
            L.check('typed read-back gives the entry\'s hex text', bytes_eq_term(list(sbytes(g.fields[0])), R_.lower(L, h)))
    return 'accepted'


def queries(tier):
    th = tier == 'thorough'
    qs = []
    seqs = [(['insert'], [1]), (['insert_raw'], [1]), (['insert', 'insert'], [1, 1]), (['insert_raw', 'insert_raw'], [1, 1]),
            (['insert', 'insert_raw'], [1, 1]), (['insert', 'remove'], [1, 1]),
            (['insert', 'insert'], [2, ('flip', 0)]), (['insert_raw', 'insert_raw'], [2, ('flip', 0)]),
            (['insert', 'insert'], [('pre', b'A', 2), ('flip', 0)]), (['insert_raw', 'insert'], [('pre', b'a', 2), ('flip', 0)]),
            (['insert', 'insert', 'remove'], [1, 1, 1]),
            (['insert'], [0]), (['insert', 'insert'], [0, 1]), (['insert'], [3])]
    if th:
        # (two independent 2-byte algorithm names, or three inserts with a 2-byte name, cost 10-15 CPU-minutes each and were dropped:
        #  the case-flip forms above cover replacement in another letter case with one free name)
        seqs += [(['insert', 'insert', 'insert'], [1, 1, ('flip', 0)]), (['insert_raw', 'insert', 'remove'], [2, 1, ('flip', 0)]),
                 (['insert', 'insert', 'insert'], [1, 1, 1]), (['insert_raw', 'insert'], [2, 1]), (['insert', 'insert'], [2, 1]), (['insert'], [4]),
                 (['insert', 'insert'], [('pre', b'A', 2), ('pre', b'a', 1)])]
    # raw values long enough to be hex pairs in either letter case
    for ops, al in ((['insert_raw'], [1]), (['insert_raw', 'insert_raw'], [1, ('flip', 0)]), (['insert', 'insert_raw'], [1, ('flip', 0)])):
        qs.append(Query('typed %s alg=%s raw=⟦2⟧' % ('+'.join(ops), al), h_seq, {'ops': ops, 'alen': al, 'vlen': 2},
                        bound='%s with raw values of 2 free bytes (hex in either case, or not hex)' % (ops,)))
    for ops, al in seqs:
        for vl in ((0, 1, 2) if th else (1,)):
            if (len(ops) > 2 or any(isinstance(x, tuple) or x >= 2 for x in al)) and vl > 1:
                continue
            if th and vl == 0 and len(ops) > 1:
                continue
            qs.append(Query('typed %s alg=%s data=⟦%d⟧' % ('+'.join(ops), al, vl), h_seq, {'ops': ops, 'alen': al, 'vlen': vl},
                            bound='Checksum::default() then %s; algorithm names of %s free bytes (no ","), values of %d free bytes; every HashMap iteration order' % (ops, al, vl)))
    def addp(T, parts):
        qs.append(Query('%s %s' % (T, show_template(parts)), h_purl, {'T': T, 'parts': parts}, bound='input = %s' % show_template(parts)))
    for T in ('String', 'Purl'):
        ty = 't' if T == 'String' else 'cargo'
        for n in lens(5 if th and T == 'String' else 4, 1):
            addp(T, ['pkg:%s/n?checksum=' % ty, ('hole', 'h', n)])
        if th and T == 'String':
            # (the variant with two-byte algorithm names -- eight free bytes -- ran for more than an hour and was dropped)
            addp(T, ['pkg:%s/n?checksum=' % ty, ('hole', 'a', 1), ':', ('hole', 'x', 2), ',', ('hole', 'b', 1), ':', ('hole', 'y', 2)])
        addp(T, ['pkg:%s/n?checksum=a:' % ty, ('hole', 'x', 2), ',B:', ('hole', 'y', 2)])
        addp(T, ['pkg:%s/n?checksum=' % ty, ('hole', 'a', 1), ':0a,', ('hole', 'b', 1), ':1B'])
        if th:
            addp(T, ['pkg:%s/n?checksum=' % ty, ('hole', 'a', 2), ':00,', ('hole', 'b', 2), ':11'])
        addp(T, ['pkg:%s/n?CheckSum=b', ('hole', 's', 3), 'aB,A', ('hole', 't', 3), 'Cd'][0:1] + ['b', ('hole', 's', 3), 'aB,A', ('hole', 't', 3), 'Cd'] if False else
             ['pkg:%s/n?CheckSum=b' % ty, ('hole', 's', 3 if th and T == 'String' else 2), 'aB,A', ('hole', 't', 2), 'Cd'])
        addp(T, ['pkg:%s/n?checksum=' % ty, ('hole', 'a', 1), ':00,', ('hole', 'b', 1), ':11,', ('hole', 'c', 1), ':22'])
        addp(T, ['pkg:%s/n?k=v&checksum=md5:' % ty, ('hole', 'x', 4), '&z=1#s'])
    return qs


def native_request(v):
    return v['case']


def confirm(v, resp):
    """concrete re-evaluation of C12 on the real crate's answer"""
    import re
    if 'panic' in resp:
        return 'panicked: %s' % resp['panic']
    req = v['case']
    if req['op'] == 'checksum':
        m = {}
        exact = 'lowered' in resp          # the oracle's own per-character lower-casing of every algorithm (no Python approximation)
        for si, st in enumerate(req['steps']):
            a = bytes.fromhex(st[1]).decode().lower() if False else bytes.fromhex(st[1]).decode()
            la = hx(resp['lowered'][si]).decode() if exact else ''.join(c.lower() for c in a)
            if st[0] == 'insert_raw':
                m[la] = bytes.fromhex(st[2]).decode()
            elif st[0] == 'insert':
                m[la] = st[2].lower()
            elif st[0] == 'remove':
                m.pop(a, None)
        good = all(re.fullmatch(r'([0-9a-fA-F]{2})*', x) for x in m.values())
        t = resp.get('text', {})
        if not good:
            return None if 'err' in t else 'serialisation accepts non-hex / odd digits: %r' % m
        if 'ok' not in t:
            return 'serialisation of %r fails with %s' % (m, t.get('err'))
        want = ','.join('%s:%s' % (k, m[k].lower()) for k in sorted(m, key=lambda s: s.encode()))
        got = bytes.fromhex(t['ok']).decode()
        # Python's str.lower() and Rust's per-char to_lowercase agree except for final sigma; tolerate that one case
        if got != want and (exact or ('σ' not in want and 'ς' not in want)):
            return 'text form is %r, canonical text is %r' % (got, want)
        algs = sorted(hx(x).decode() for x in resp.get('algorithms', []))
        if exact and algs != sorted(m):
            return 'algorithms() lists %r, inserted (lower-cased) were %r' % (algs, sorted(m))
        # ... parses back to the same entries, and decoding returns the inserted bytes
        back = resp.get('back')
        if m and back is not None and got == want:
            if 'ok' not in back:
                return 'the text form %r does not parse back: %s' % (got, back.get('err'))
            b2 = {hx(k).decode(): hx(x).decode() for k, x in back['ok']}
            if b2 != {k: x.lower() for k, x in m.items()}:
                return 'the text form %r parses back to %r, inserted were %r' % (got, b2, m)
        for k, x in resp.get('decoded', []):
            k = hx(k).decode()
            if got == want and k in m and x != m[k].lower():
                return 'decoding the entry %r gives %r, inserted was %r' % (k, x, m[k])
        return None
    if 'ok' not in resp:
        return None
    s = bytes.fromhex(req['s']).decode()
    val = dict((hx(k), hx(x)) for k, x in resp['ok']['quals']).get(b'checksum')
    if val is None:
        return None
    ent = []
    for e in val.split(b','):
        if b':' not in e:
            return 'checksum %r has an entry without ":"' % val
        a, h = e.rsplit(b':', 1)
        ent.append((a, h))
    if [a for a, _ in ent] != sorted(a for a, _ in ent) or any(re.search(rb'[A-Z]', a + h) or len(h) % 2 or not re.fullmatch(rb'[0-9a-f]*', h) for a, h in ent):
        return 'checksum qualifier %r is not the canonical text' % val
    # compare with the entries written in the input
    import urllib.parse
    m = re.search(r'[?&][cC][hH][eE][cC][kK][sS][uU][mM]=([^&#]*)', s)
    if m:
        raw = urllib.parse.unquote_to_bytes(m.group(1))
        want = sorted((a.decode('utf8', 'replace').lower().encode(), h.lower()) for a, h in (e.rsplit(b':', 1) for e in raw.split(b',') if b':' in e))
        if want != ent and 'σ'.encode() not in val:
            return 'checksum qualifier %r does not carry the entries written in %r' % (val, s)
    return None


def finding_role(v, resp):
    return 'other'


def vacuity(results):
    probs = []
    tags = {}
    for r in results:
        for k, n in r['outcomes'].items():
            tags[k] = tags.get(k, 0) + n
    for w in ('text', 'text-refused', 'accepted', 'rejected'):
        if not tags.get(w):
            probs.append('no leaf with outcome ' + w)
    return probs


LEVEL_TEXT = ('bounded symbolic model checking of the real MIR: sequences of insert / insert_raw / remove with free algorithm names (incl. case variants) '
              'and free data bytes are interpreted on Checksum; the HashMap iteration order is a fork over all permutations, so `same text for every '
              'order / every hash seed` is part of the quantifier; text == reference canonical text, parse-back and decoded bytes are solver validity '
              'queries; at PURL level every spelling of the checksum qualifier within the templates must carry the canonical text and read back typed')
ASSUMPTIONS = ['a HashMap iterates its entries in some permutation (all permutations explored); hashing itself is not modelled']
