"""C04 -- every PURL value handed out is valid and normalised."""
from .std import *

ID = 'C04'
PROGS = ['default']


def chk(L, T, p, acc, disp):
    chk_invariants(L, T, p, acc, builtin=True)


def h_prestate(L, T, ty, fields, quals):
    """inductive step: build() from an arbitrary builder state (public fields written directly)"""
    I = L.I
    def mat(x):
        if isinstance(x, tuple) and x and x[0] == 'hole':
            b = L.sym_bytes(x[1], x[2])
            L.assume_utf8(b)
            return b
        return list(x.encode() if isinstance(x, str) else x)
    tyb = mat(ty)
    f = {k: mat(v) for k, v in fields.items()}
    qs = [(mat(k), mat(v)) for k, v in quals]
    steps = [['set_' + k, SymStr(v)] for k, v in f.items() if k != 'name'] + [['with_qualifier', SymStr(k), SymStr(v)] for k, v in qs]
    req = {'op': 'build', 'T': KINDS[T][1], 'type': SymStr(tyb), 'name': SymStr(f.get('name', [])), 'steps': steps}
    L.expect_native(req, {})
    try:
        b = b_new(I, T, mk_type(I, T, tyb), f.get('name', []))
        parts = b.fields[1]
        for i, k in enumerate(('namespace', 'name', 'version')):
            if k in f:
                parts.fields[i] = StringBuf(f[k])
        if 'subpath' in f:
            parts.fields[4] = StringBuf(f['subpath'])
        for k, v in qs:
            b = b_call(I, T, b, 'with_qualifier', k, v)
            if b.variant == 'Err':
                L.expect_native(req, {'err': 'with_qualifier:' + err_name(b.fields[0])})
                return 'rejected:with_qualifier'
            b = b.fields[0]
        r = b_build(I, T, b)
        if r.variant == 'Err':
            L.expect_native(req, {'err': err_name(r.fields[0])})
            return 'rejected:' + err_name(r.fields[0])
        p = r.fields[0]
        acc = accessors(I, T, p)
        disp = display(I, T, p)
    except Panic as e:
        L.fail('panic: %s' % e.msg)
        return 'panic'
    L.expect_native(req, {'ok': obs_expect(acc, disp)})
    chk_invariants(L, T, p, acc, builtin=True)
    return 'built'


def queries(tier):
    th = tier == 'thorough'
    qs = parse_family(tier, [chk]) + build_family(tier, [chk], kinds=('String', 'Purl', 'SmallString', 'CowB', 'CowO'))
    # arbitrary builder pre-states: every field a hole (incl. empty), qualifiers with hole values (incl. empty) and checksum
    m = 2 if th else 1
    for T in ('String', 'CowB', 'Purl'):
        ty = 't' if T != 'Purl' else 'pypi'
        for n in lens(m):
            for fld in ('namespace', 'name', 'version', 'subpath'):
                fields = {'name': 'n', fld: ('hole', 'h', n)}
                qs.append(Query('%s prestate %s=⟦%d⟧' % (T, fld, n), h_prestate, {'T': T, 'ty': ty, 'fields': fields, 'quals': []},
                                bound='builder with %s = every valid-UTF-8 string of %d bytes' % (fld, n)))
            qs.append(Query('%s prestate quals a=⟦%d⟧ B=⟦%d⟧' % (T, n, n), h_prestate,
                            {'T': T, 'ty': ty, 'fields': {'name': 'n'}, 'quals': [('a', ('hole', 'h', n)), ('B', ('hole', 'g', n))]},
                            bound='two qualifiers with values of %d free bytes each (empty included)' % n))
        for n in lens(4 if th else 3):
            qs.append(Query('%s prestate checksum=⟦%d⟧' % (T, n), h_prestate,
                            {'T': T, 'ty': ty, 'fields': {'name': 'n'}, 'quals': [('checksum', ('hole', 'h', n))]},
                            bound='checksum qualifier with %d free bytes' % n))
    for n in lens(3 if th else 2):
        for T in ('String', 'SmallString', 'CowB', 'CowO'):
            qs.append(Query('%s prestate type=⟦%d⟧' % (T, n), h_prestate, {'T': T, 'ty': ('hole', 't', n), 'fields': {'name': 'n'}, 'quals': []},
                            bound='type string = every valid-UTF-8 string of %d bytes' % n))
    # user-written PurlShape implementations whose finish hook edits the parts (the model-shape family of C14)
    from . import c14
    for q in c14.queries(tier):
        q.name = 'user shape ' + q.name
        q.harness = _only_c04(q.harness)
        qs.append(q)
    return qs


class _C04Leaf:
    """a view of the leaf that keeps only the obligations C04 itself states (raised while `in_c04` is set); the call-protocol
    obligations of the shared harness belong to C14 and are decided and confirmed there"""

    def __init__(self, L):
        self.__dict__['_L'] = L
        self.__dict__['in_c04'] = False

    def __getattr__(self, k):
        return getattr(self._L, k)

    def __setattr__(self, k, v):
        if k == 'in_c04':
            self.__dict__[k] = v
        else:
            setattr(self._L, k, v)

    def check(self, label, claim, case=None):
        return self._L.check(label, claim, case) if self.in_c04 else True

    def fail(self, label, case=None):
        if self.in_c04:
            self._L.fail(label, case)


def _only_c04(h):
    def wrapped(L, **kw):
        return h(_C04Leaf(L), **kw)
    return wrapped


def native_request(v):
    return v['case']


def confirm(v, resp):
    if 'panic' in resp:
        return 'panicked: %s' % resp['panic']
    if 'ok' not in resp:
        return None
    if v['case'].get('op') == 'shape':
        return concrete_invariant_violation(resp['ok'], builtin=False)
    return concrete_invariant_violation(resp['ok'])


def finding_role(v, resp):
    return 'other'


def vacuity(results):
    return [p for p in std_vacuity(results)]
LEVEL_TEXT = ('bounded symbolic model checking of the real MIR: every clause of C04 is asserted (solver validity query or decided fork) on every '
              'accepted leaf of the parser templates, every built leaf of the builder scripts, and on build() from builder pre-states '
              'whose public fields and qualifier values are free byte strings (an inductive step: any history reaching such a state is covered)')
