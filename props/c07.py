"""C07 -- namespace and subpath structure cannot be forged or climb upwards."""
from .std import *
from mirsym.interp import Interp

ID = 'C07'
PROGS = ['default']
SEP = tt(b'@?#')


def split_bytes(L, b, ch):
    out, cur = [], []
    for x in b:
        if beq(L.I, x, ch):
            out.append(cur)
            cur = []
        else:
            cur.append(x)
    out.append(cur)
    return out


def is_dots(L, seg):
    return len(seg) in (1, 2) and all(beq(L.I, x, 0x2E) for x in seg)


def ref_decode(L, piece):
    """reference percent-decoder written from the property text: %XX (either hex case) is one byte"""
    I = L.I
    HEXD = tt((0x30, 0x39), (0x41, 0x46), (0x61, 0x66))
    out, i = [], 0
    while i < len(piece):
        x = piece[i]
        if i + 2 < len(piece) + 0 and i + 2 <= len(piece) - 1 and beq(I, x, 0x25) and in_set(I, piece[i + 1], HEXD) and in_set(I, piece[i + 2], HEXD):
            def val(d):
                if isinstance(d, int):
                    return int(chr(d), 16)
                if in_range(I, d, 0x30, 0x39):
                    return d - 0x30
                if in_range(I, d, 0x41, 0x46):
                    return d - 0x37
                return d - 0x57
            v = val(piece[i + 1]) * 16 + val(piece[i + 2])
            out.append(v if isinstance(v, int) else z3.simplify(v))
            i += 3
        else:
            out.append(x)
            i += 1
    return out


def chk_structure(L, T, p, acc, disp):
    """part A: structural invariants of what is reported"""
    ns, sub = acc['ns'], acc['sub']
    if ns is not None:
        for seg in split_bytes(L, ns, 0x2F):
            if len(seg) == 0:
                L.fail('namespace has an empty segment / leading or trailing "/"')
    if sub is not None:
        for seg in split_bytes(L, sub, 0x2F):
            if len(seg) == 0:
                L.fail('subpath has an empty segment')
            elif is_dots(L, seg):
                L.fail('subpath has a "." or ".." segment')


def h_exact(L, T, which, pre, n, post):
    """part B: the reported segments are exactly the non-skipped raw pieces, decoded"""
    I = L.I
    hole = L.sym_bytes('h', n)
    for x in hole:
        L.assume(z3.Not(z3.Or([x == c for c in b'@?#'])))      # keep the component boundaries where the template puts them
    s = list(pre.encode()) + hole + list(post.encode())
    L.assume_utf8(s)
    req = {'op': 'parse', 'T': KINDS[T][1], 's': SymStr(s)}
    L.expect_native(req, {})
    try:
        r = from_str(I, T, s)
    except Panic as e:
        L.fail('panic: %s' % e.msg)
        return 'panic'
    if r.variant == 'Err':
        L.expect_native(req, {'err': err_name(r.fields[0])})
        return 'rejected:' + err_name(r.fields[0])
    p = r.fields[0]
    acc = accessors(I, T, p)
    L.expect_native(req, {'ok': obs_expect(acc)})
    chk_structure(L, T, p, acc, None)
    pieces = split_bytes(L, hole, 0x2F)
    want = []
    for pc in pieces:
        if len(pc) == 0:
            continue
        if which == 'sub' and is_dots(L, pc):
            continue
        want.append(ref_decode(L, pc))
    got = acc[which]
    if which == 'ns':
        want = [list(b'a')] + want if pre.endswith('a/') else want
    exp = []
    for i, w in enumerate(want):
        if i:
            exp.append(0x2F)
        exp += w
    if not exp:
        if got is not None:
            L.fail('%s reported although every raw piece is skipped' % which)
        return 'accepted'
    if got is None:
        L.fail('%s missing although non-skipped pieces exist' % which)
        return 'accepted'
    if len(got) != len(exp):
        L.fail('%s differs in length from the decoded raw pieces' % which)
        return 'accepted'
    L.check('%s == decoded non-skipped raw pieces joined by "/"' % which, bytes_eq_term(got, exp))
    return 'accepted'


def h_other(L, T, parts):
    """escapes outside the namespace / subpath cannot create segments there: with no raw '/' between type and name and no raw '#',
    no namespace and no subpath may be reported, whatever is escaped in the name, version or qualifiers"""
    I = L.I
    s, holes = template_bytes(L, parts)
    for hb in holes.values():
        for x in hb:
            L.assume(z3.Not(z3.Or([x == c for c in b'/#'])))
    L.assume_utf8(s)
    req = {'op': 'parse', 'T': KINDS[T][1], 's': SymStr(s)}
    L.expect_native(req, {})
    try:
        r = from_str(I, T, s)
    except Panic as e:
        L.fail('panic: %s' % e.msg)
        return 'panic'
    if r.variant == 'Err':
        L.expect_native(req, {'err': err_name(r.fields[0])})
        return 'rejected:' + err_name(r.fields[0])
    acc = accessors(I, T, r.fields[0])
    L.expect_native(req, {'ok': obs_expect(acc)})
    if acc['ns'] is not None:
        L.fail('a namespace is reported although the input has no raw "/" between type and name')
    if acc['sub'] is not None:
        L.fail('a subpath is reported although the input has no raw "#"')
    return 'accepted'


def h_after(L, T, first, second):
    """the segments reported for an input are the pieces of *that* input: parsing it right after another (possibly rejected) input on the
    same thread gives what parsing it alone gives"""
    I = L.I
    f, _ = template_bytes(L, first)
    L.assume_utf8(f)
    s2 = list(second.encode())
    req = {'op': 'parse_after', 'T': KINDS[T][1], 'first': SymStr(f), 's': SymStr(s2)}
    L.expect_native(req, {})
    try:
        r1 = from_str(I, T, f)
        r2 = from_str(I, T, s2)
        alone = from_str(Interp(I.prog, L.ctx), T, s2)
    except Panic as e:
        L.fail('panic: %s' % e.msg)
        return 'panic'
    tag = 'accepted' if r1.variant == 'Ok' else 'rejected:' + err_name(r1.fields[0])
    if r2.variant != alone.variant:
        L.fail('an input is accepted or refused depending on what was parsed before it')
        return tag
    if r2.variant == 'Ok':
        a2, a0 = accessors(I, T, r2.fields[0]), accessors(I, T, alone.fields[0])
        L.expect_native(req, {'after': {'ok': obs_expect(a2)}})
        if repr(a2) != repr(a0):
            L.fail('the segments reported for an input depend on what was parsed before it')
    return tag


def queries(tier):
    th = tier == 'thorough'
    qs = parse_family(tier, [chk_structure], depth=0)
    for T in ('String', 'Purl'):
        ty = 't' if T == 'String' else 'npm'
        for first in (['pkg:%s/a/' % ty, ('hole', 'h', 3), '/n'], ['pkg:%s/n#a/' % ty, ('hole', 'h', 3)], ['pkg:%s/n?k=' % ty, ('hole', 'h', 3), '#a/b']):
            qs.append(Query('%s after %s' % (T, show_template(first)), h_after, {'T': T, 'first': first, 'second': 'pkg:%s/x/y/n@1#p/q' % ty},
                            bound='%s parsed first, then pkg:%s/x/y/n@1#p/q on the same thread' % (show_template(first), ty)))
    # escapes in the name / version / qualifier value of every type, with and without an escaped '@' in front
    for T, tys in (('String', ['t']), ('Purl', ['cargo', 'gem', 'golang', 'npm', 'nuget', 'pypi'])):
        for ty in tys:
            for parts in (['pkg:%s/' % ty, ('hole', 'h', 3), 'a', ('hole', 'g', 3), 'b'], ['pkg:%s/%%40a' % ty, ('hole', 'h', 3), 'b@1'],
                          ['pkg:%s/n@' % ty, ('hole', 'h', 3), 'a', ('hole', 'g', 3)], ['pkg:%s/a%%2Fb?k=' % ty, ('hole', 'h', 3)]):
                if ty not in ('t', 'npm', 'golang') and parts[0].endswith('/') and not th:
                    continue
                qs.append(Query('%s other %s' % (T, show_template(parts)), h_other, {'T': T, 'parts': parts},
                                bound='input %s, holes without raw / and #' % show_template(parts)))
    for T in ('String', 'Purl'):
        ty = 't' if T == 'String' else 'golang'
        for n in lens((6 if th else 5) if T == 'String' else 4, 1):
            qs.append(Query('%s exact ns pkg:%s/⟦%d⟧/n' % (T, ty, n), h_exact, {'T': T, 'which': 'ns', 'pre': 'pkg:%s/' % ty, 'n': n, 'post': '/n'},
                            bound='namespace hole of %d free bytes (no raw @ ? #)' % n))
            qs.append(Query('%s exact sub pkg:%s/n#⟦%d⟧' % (T, ty, n), h_exact, {'T': T, 'which': 'sub', 'pre': 'pkg:%s/n#' % ty, 'n': n, 'post': ''},
                            bound='subpath hole of %d free bytes (no raw @ ? #)' % n))
        for n in lens(4 if th else 3, 1):
            qs.append(Query('%s exact ns full pkg:%s/a/⟦%d⟧/n@1?k=v#s' % (T, ty, n), h_exact,
                            {'T': T, 'which': 'ns', 'pre': 'pkg:%s/a/' % ty, 'n': n, 'post': '/n@1?k=v#s'}, bound='namespace hole of %d free bytes in full context' % n))
            qs.append(Query('%s exact sub full pkg:%s/ns/n@1?k=v#⟦%d⟧' % (T, ty, n), h_exact,
                            {'T': T, 'which': 'sub', 'pre': 'pkg:%s/ns/n@1?k=v#' % ty, 'n': n, 'post': ''}, bound='subpath hole of %d free bytes in full context' % n))
    return qs


def native_request(v):
    return v['case']


def confirm(v, resp):
    if 'panic' in resp:
        return 'panicked: %s' % resp['panic']
    if 'after' in resp:
        if resp['after'] != resp['alone']:
            return 'parsed after %r the input reports %r, parsed alone %r' % (bytes.fromhex(v['case']['first']), resp['after'].get('ok', resp['after']), resp['alone'].get('ok', resp['alone']))
        return None
    if 'ok' not in resp:
        return None
    o = resp['ok']
    ns, sub = hx(o['ns']), hx(o['sub'])
    if ns is not None and any(s == b'' for s in ns.split(b'/')):
        return 'namespace %r has an empty segment' % ns
    if sub is not None and any(s in (b'', b'.', b'..') for s in sub.split(b'/')):
        return 'subpath %r has an empty, "." or ".." segment' % sub
    # exactness: recompute from the raw input with an independent decoder
    import re, urllib.parse
    s = bytes.fromhex(v['case']['s']).decode()
    lab = v.get('label', '')
    def dec(x):
        return re.sub(rb'%([0-9A-Fa-f]{2})', lambda m: bytes([int(m.group(1), 16)]), x)
    if 'sub' in lab and '#' in s:
        raw = s.rsplit('#', 1)[1].encode()
        want = b'/'.join(dec(x) for x in raw.split(b'/') if x not in (b'', b'.', b'..'))
        if (sub or b'') != want:
            return 'subpath reported as %r but the raw pieces decode to %r' % (sub, want)
    if '#' not in s and sub is not None:
        return 'subpath %r reported although the input has no raw "#"' % sub
    body0 = s.split('#')[0].split('?')[0][4:].lstrip('/')
    rest0 = body0.split('/', 1)[1] if '/' in body0 else ''
    rest0 = rest0.rsplit('@', 1)[0] if '@' in rest0 else rest0
    if '/' not in rest0.strip('/') and ns is not None and '/' not in rest0:
        return 'namespace %r reported although the input has no raw "/" between type and name' % ns
    if 'ns' in lab or 'namespace' in lab:
        body = s.split('#')[0].split('?')[0]
        body = body[4:].lstrip('/')
        rest = body.split('/', 1)[1] if '/' in body else ''
        rest = rest.rsplit('@', 1)[0] if '@' in rest else rest
        if '/' in rest:
            raw = rest.rsplit('/', 1)[0].encode()
            want = b'/'.join(dec(x) for x in raw.split(b'/') if x != b'')
            if (ns or b'') != want:
                return 'namespace reported as %r but the raw pieces decode to %r' % (ns, want)
    return None


def finding_role(v, resp):
    return 'other'


vacuity = std_vacuity
LEVEL_TEXT = ('bounded symbolic model checking of the real MIR: (A) on every accepted leaf of the parser templates the reported namespace/subpath '
              'are split at "/" and "no empty / dot segment" is decided; (B) for namespace and subpath holes of up to the stated size an independent '
              'reference (split the raw hole at raw "/", skip empty and raw dot pieces, percent-decode each piece) is evaluated on the same symbolic '
              'bytes and equality with the reported component is a solver validity query')
