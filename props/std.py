"""Concrete (native-side) evaluation of the properties on oracle responses, and shared query builders."""
from .lib import *
from mirsym.explore import Query


def hx(b):
    return bytes.fromhex(b) if b is not None else None


def concrete_escape(b, esc):
    out = bytearray()
    for x in b:
        if esc >> x & 1:
            out += b'%%%02X' % x
        else:
            out.append(x)
    return bytes(out)


def concrete_render(o):
    out = b'pkg:' + hx(o['type']) + b'/'
    if o['ns'] is not None:
        out += concrete_escape(hx(o['ns']), ESC_NS) + b'/'
    out += concrete_escape(hx(o['name']), ESC_NAME)
    if o['ver'] is not None:
        out += b'@' + concrete_escape(hx(o['ver']), ESC_VER)
    sep = b'?'
    for k, v in o['quals']:
        out += sep + concrete_escape(hx(k), ESC_QUAL) + b'=' + concrete_escape(hx(v), ESC_QUAL)
        sep = b'&'
    if o['sub'] is not None:
        out += b'#' + concrete_escape(hx(o['sub']), ESC_SUB)
    return out


def concrete_shape_violation(o):
    want, got = concrete_render(o), hx(o['disp'])
    if want != got:
        return 'to_string() is %r but the documented rendering of its accessors is %r' % (got.decode('utf8', 'replace'), want.decode('utf8', 'replace'))
    if any(not (0x21 <= x <= 0x7E) for x in got):
        return 'to_string() %r is not printable ASCII' % got
    ks = [hx(k) for k, _ in o['quals']]
    if ks != sorted(ks) or len(set(ks)) != len(ks):
        return 'qualifier keys are not in strictly ascending order in %r' % got
    if any(hx(v) == b'' for _, v in o['quals']):
        return 'an absent part is printed: %r has a qualifier with an empty value' % got
    return None


def concrete_invariant_violation(o, builtin=True):
    import re
    if hx(o['name']) == b'':
        return 'empty name'
    for f in ('ns', 'ver', 'sub'):
        if o[f] is not None and hx(o[f]) == b'':
            return '%s reported as Some("")' % f
    ks = [hx(k) for k, _ in o['quals']]
    for k, v in o['quals']:
        if not re.fullmatch(rb'[a-z0-9._-]+', hx(k)):
            return 'qualifier key %r is not valid lower-case' % hx(k)
        if hx(v) == b'':
            return 'qualifier %r has an empty value' % hx(k)
    if ks != sorted(ks) or len(set(ks)) != len(ks):
        return 'qualifier keys %r are not strictly ascending' % ks
    if o.get('quals_rev') is not None and [hx(k) for k, _ in o['quals_rev']] != ks[::-1]:
        return 'reverse iteration disagrees with forward iteration'
    if o.get('get_ok') is False:
        return 'a qualifier is not retrievable by its key'
    if builtin and not re.fullmatch(rb'[a-z0-9.+-]+', hx(o['type'])):
        return 'type string %r is not lower-case [a-z0-9.+-]+' % hx(o['type'])
    for k, v in o['quals']:
        if hx(k) == b'checksum':
            v = hx(v)
            if re.search(rb'[A-Z]', v):
                return 'checksum %r contains upper-case letters' % v
            algs = []
            for e in v.split(b','):
                if b':' not in e:
                    return 'checksum entry %r without ":"' % e
                a, h = e.rsplit(b':', 1)
                if len(h) % 2 or not re.fullmatch(rb'[0-9a-f]*', h):
                    return 'checksum entry %r is not an even number of lower-case hex digits' % e
                algs.append(a)
            if algs != sorted(algs) or len(set(algs)) != len(algs):
                return 'checksum algorithms %r are not strictly ascending' % algs
    return None


def h_value(L, T, parts, checks):
    """parse a template and run per-value obligations on the accepted result"""
    I = L.I
    try:
        p, tag, s = gen_parse(L, T, parts)
        if p is None:
            return tag
        acc = accessors(I, T, p)
        disp = display(I, T, p)
    except Panic as e:
        L.fail('panic: %s' % e.msg)
        return 'panic'
    L.expect_native(L.replay[0], {'ok': obs_expect(acc, disp)})
    for c in checks:
        c(L, T, p, acc, disp)
    return tag


def STRUCT_TEMPLATES(k=0):
    """skeleton + one longer hole whose bytes range over a few structure characters"""
    return [['pkg:t/', ('hole', 'h', 7 + k, b'/a'), '/n'],
            ['pkg:t/a', ('hole', 'h', 5 + k, b'/%2fF'), 'b/n'],
            ['pkg:t/n#', ('hole', 'h', 7 + k, b'/.a')],
            ['pkg:t/n#a/', ('hole', 'h', 5 + k, b'/.%2eE')],
            ['pkg:t/n?', ('hole', 'h', 7 + k, b'a=&A')],
            ['pkg:t/', ('hole', 'h', 5 + k, b'a@?#/')]]


def LONG_TEMPLATES():
    """fields longer than a small string's inline capacity (23 bytes): a 22-byte concrete run and a 2-byte hole in every component"""
    run = 'abcdefghijklmnopqrstuv'
    H2 = ('hole', 'h', 2)
    return [['pkg:t/' + run, H2], ['pkg:t/aaaaaaaaaa/bbbbbbbbbb/', H2, '/n'], ['pkg:t/n@' + run, H2], ['pkg:t/n?k=' + run, H2],
            ['pkg:t/n#aaaaaaaaaa/bbbbbbbbbb/', H2], ['pkg:t/n?' + run, H2, '=v'], ['pkg:t/n?checksum=' + run + ':', H2],
            ['pkg:t.' + run, ('hole', 'h', 1), '/n']]


def parse_family(tier, checks, name_prefix='', kinds=('String', 'SmallString'), typed=True, depth=0):
    """the common input family: tail, slot templates (minimal and full context), adjacent pairs, typed contexts"""
    qs = []
    th = tier == 'thorough'

    def add(T, parts):
        qs.append(Query('%s%s %s' % (name_prefix, T, show_template(parts)), h_value, {'T': T, 'parts': parts, 'checks': checks},
                        bound='input = %s, ⟦n⟧ = every valid-UTF-8 byte string of exactly n bytes' % show_template(parts)))
    for T in kinds:
        deep = T == kinds[0]
        for n in lens((4 if th else 3) + depth if deep else 2):
            add(T, ['pkg:', ('hole', 'h', n)])
        m = ((4 if th else 3) + depth) if deep else 2
        for sl in SLOTS_MIN + SLOTS_FULL:
            for n in lens(m, 1):
                add(T, fill(sl, n))
        if deep:
            k = 3 if th else 2
            for pr in PAIRS:
                for a in lens(k, 1):
                    for b in lens(k, 1):
                        add(T, fill(pr, a, b))
            # long skeletons: many segments / qualifiers (deeper binary searches, longer loops) around small holes
            add(T, ['pkg:t/a/b/c/d/', ('hole', 'h', 2), '/f/n@1.2.3?b=1&d=2&f=3&h=4&', ('hole', 'g', 1), '=5&l=6#x/y/z'])
            add(T, ['pkg:t/n?b=1&d=2&f=3&h=4&j=5&l=6&', ('hole', 'h', 2), '=v'])
            add(T, ['pkg:t/n?', ('hole', 'h', 1), '=v&b=1&d=2&F=3&h=4&J=5&l=6&n=7'])
            add(T, ['pkg:t/n#a/b/./c/../d/', ('hole', 'h', 3), '/e//f'])
            # two qualifiers with free keys (ordering of keys that differ in '_', '-', '.', digits, letters)
            add(T, ['pkg:t/n?', ('hole', 'h', 2), '=v&', ('hole', 'g', 2), '=w'])
            add(T, ['pkg:t/n?', ('hole', 'h', 1), '=v&', ('hole', 'g', 2), '=w'])
            if th:
                add(T, ['pkg:t/n?a', ('hole', 'h', 2), '=v&a', ('hole', 'g', 2), '=w'])
            # structure characters only, longer holes: runs of separators, dot segments, escapes of separators, repeated keys
            k = 1 if th else 0
            for parts in STRUCT_TEMPLATES(k) + LONG_TEMPLATES():
                add(T, parts)
            for n in lens(5 if th else 4, 1):
                add(T, ['pkg:t/n?checksum=', ('hole', 'h', n)])
            for n in lens(3 if th else 2, 1):
                add(T, ['pkg:t/n?checksum=a:', ('hole', 'h', n), ',B:', ('hole', 'g', n)])
    if typed:
        for ty in PT_VARIANTS:
            for n in lens(3 if th else 2, 1):
                add('Purl', ['pkg:%s/ns/' % ty, ('hole', 'h', n)])
            add('Purl', ['pkg:%s/' % ty, ('hole', 'h', 2), '/n@1?k=v#s'])
    return qs


def std_vacuity(results):
    probs = []
    acc = sum(v for r in results for k, v in r['outcomes'].items() if k in ('accepted', 'built'))
    rej = sum(v for r in results for k, v in r['outcomes'].items() if k.startswith('rejected'))
    if acc == 0:
        probs.append('no accepted / built leaf')
    if rej == 0:
        probs.append('no rejected leaf')
    return probs


OUTSIDE = ['inputs with more free bytes than the listed holes / other skeletons', 'allocation failure',
           'internals of std, percent-encoding, hex, phf, unicase, smartstring (API-level models, validated by witness replay)']


def h_built(L, T, ty, name, steps, checks, via='ctor'):
    """run a builder script whose arguments may be holes, then per-value obligations"""
    I = L.I
    def mat(x):
        if isinstance(x, tuple) and x and x[0] == 'hole':
            b = L.sym_bytes(x[1], x[2])
            if len(x) > 3:
                L.restrict(b, x[3])
            L.assume_utf8(b)
            return b
        return list(x.encode() if isinstance(x, str) else x)
    tyb, nm = mat(ty), mat(name)
    st = [(s[0],) + tuple(mat(a) for a in s[1:]) for s in steps]
    try:
        p, tag = gen_build(L, T, tyb, nm, st, via)
        if p is None:
            return tag
        acc = accessors(I, T, p)
        disp = display(I, T, p)
    except Panic as e:
        L.fail('panic: %s' % e.msg)
        return 'panic'
    L.expect_native(L.replay[0], {'ok': obs_expect(acc, disp)})
    for c in checks:
        c(L, T, p, acc, disp)
    return tag


def show_steps(ty, name, steps):
    def sh(x):
        if isinstance(x, tuple):
            return hole_text(x)
        return repr(x if isinstance(x, str) else bytes(x).decode('utf8', 'replace'))
    return 'new(%s,%s)' % (sh(ty), sh(name)) + ''.join('.%s(%s)' % (s[0], ','.join(sh(a) for a in s[1:])) for s in steps)


def build_family(tier, checks, kinds=('String', 'Purl'), name_prefix=''):
    qs = []
    th = tier == 'thorough'
    FULL = [('with_namespace', 'ns'), ('with_version', '1'), ('with_qualifier', 'k', 'v'), ('with_subpath', 's')]

    def add(T, ty, name, steps, via='ctor'):
        txt = show_steps(ty, name, steps)
        if via == 'parsed':
            txt = "parse('pkg:%s/ns/n@1?a=1&c=3#s').into_builder()" % ty + txt[txt.index(')') + 1:]
        elif via != 'ctor':
            txt = txt.replace('new(', 'GenericPurl::%s(' % via, 1)
        qs.append(Query('%s%s %s' % (name_prefix, T, txt), h_built,
                        {'T': T, 'ty': ty, 'name': name, 'steps': steps, 'checks': checks, 'via': via},
                        bound='builder script %s, ⟦n⟧ = every valid-UTF-8 byte string of exactly n bytes' % txt))
    for T in kinds:
        ty = 't' if T != 'Purl' else 'npm'
        m = 3 if th else 2
        for n in lens(m):
            h = ('hole', 'h', n)
            add(T, ty, h, [])
            add(T, ty, h, FULL)
            add(T, ty, h, [], via='new')
            if n == m:
                add(T, ty, h, FULL, via='builder')
            for meth in ('with_namespace', 'with_version', 'with_subpath'):
                add(T, ty, 'n', [(meth, h)])
                add(T, ty, 'n', [s for s in FULL if s[0] != meth] + [(meth, h)])
            add(T, ty, 'n', [('with_qualifier', 'k', h)])
            add(T, ty, 'n', FULL + [('with_qualifier', 'a', h)])
            if n >= 1:
                add(T, ty, 'n', [('with_qualifier', h, 'v')])
                add(T, ty, 'n', FULL + [('with_qualifier', h, 'v')])
                if n == 2 and T == kinds[0]:
                    add(T, ty, 'n', [('with_qualifier', h, 'v'), ('with_qualifier', ('hole', 'g', 2), 'w')])
        if T != 'Purl':
            for n in lens(m):
                add(T, ('hole', 'h', n), 'n', [])
        if T in ('String', 'Purl', 'SmallString'):
            # edit-and-rebuild: `pkg:<type>/ns/n@1?a=1&c=3#s` parsed, turned back into a builder, one field changed
            h2 = ('hole', 'h', 2)
            for meth in ('with_namespace', 'with_name', 'with_version', 'with_subpath'):
                add(T, ty, 'n', [(meth, h2)], via='parsed')
            add(T, ty, 'n', [('with_qualifier', ('hole', 'h', 1), ('hole', 'g', 1))], via='parsed')
            add(T, ty, 'n', [('without_qualifier', ('hole', 'h', 1))], via='parsed')
        if T == kinds[0] or th:
            # many qualifiers, then removal / override with a free key (positions at which a vector-backed map can go wrong)
            MANY = [('with_qualifier', k, v) for k, v in (('c', '1'), ('a', '2'), ('e', '3'), ('b', '4'), ('d', '5'))]
            add(T, ty, 'n', MANY + [('without_qualifier', ('hole', 'h', 1))])
            add(T, ty, 'n', MANY + [('without_qualifier', ('hole', 'h', 1)), ('with_qualifier', ('hole', 'g', 1), 'x')])
            add(T, ty, 'n', MANY[:3] + [('without_qualifier', ('hole', 'h', 1)), ('with_qualifier', ('hole', 'g', 1), 'x'), ('without_qualifier', ('hole', 'f', 1))])
            add(T, ty, 'n', MANY + [('with_qualifier', ('hole', 'h', 1), ('hole', 'g', 1))])
            # several empty-valued qualifiers next to each other (each must be dropped)
            add(T, ty, 'n', [('with_qualifier', 'a', ''), ('with_qualifier', 'b', ''), ('with_qualifier', 'c', ('hole', 'h', 1)), ('with_qualifier', 'd', ''), ('with_qualifier', 'e', '')])
            add(T, ty, 'n', MANY + [('with_qualifier', 'a', ''), ('with_qualifier', 'b', ''), ('with_qualifier', ('hole', 'h', 1), '')])
            # structure characters only, longer holes: runs of separators and dot segments through the builder
            for n in ((4, 5, 6) if th else (4, 5)):
                add(T, ty, 'n', [('with_namespace', ('hole', 'h', n, b'/a'))])
                add(T, ty, 'n', [('with_subpath', ('hole', 'h', n, b'/.a'))])
            add(T, ty, 'n', FULL + [('with_namespace', ('hole', 'h', 5, b'/a')), ('with_subpath', ('hole', 'g', 3, b'/.a'))])
            # text that looks like an escape (the builder takes decoded text: a '%' is a character, `%41` is three characters)
            ESC = b'%2541a'
            for meth in ('with_namespace', 'with_version', 'with_subpath'):
                for n in (3, 5):
                    add(T, ty, 'n', [(meth, ('hole', 'h', n, ESC))])
            add(T, ty, ('hole', 'h', 5, ESC), [])
            add(T, ty, 'n', [('with_qualifier', 'k', ('hole', 'h', 5, ESC))])
            add(T, ty, 'n', FULL + [('with_namespace', ('hole', 'h', 3, ESC)), ('with_subpath', ('hole', 'g', 3, ESC))])
            # a user-written typed qualifier whose declared key has upper-case letters
            for tag in ('K', 'Ab'):
                add(T, ty, 'n', [('with_qualifier', 'a', '1'), ('typed_model', tag, ('hole', 'h', 1)), ('with_qualifier', ('hole', 'g', 1), '2')])
    return qs
