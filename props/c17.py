"""C17 -- behaviour does not depend on optional feature flags."""
from .std import *
from mirsym.interp import Interp
from mirsym.models import Formatter

ID = 'C17'
PROGS = ['default', 'nodefault', 'pt']
NATIVE_SETS = ['nodefault', 'pt']


def error_text(I, e):
    f = Formatter()
    I.trait_call('Display', 'fmt', parse_type(e.ty), [Ref([e], 0), Ref([f], 0)])
    return list(f.out)


def kind_for(I, T):
    """the small-string type parameter is SmartString with the smartstring feature and String (the crate's alias) without it"""
    return 'String' if T == 'SmallString' and 'smartstring' not in I.prog.features else T


def outcome(I, T, s):
    T = kind_for(I, T)
    r = from_str(I, T, s)
    if r.variant == 'Err':
        return ('err', err_name(r.fields[0]), error_text(I, r.fields[0]))
    p = r.fields[0]
    return ('ok', accessors(I, T, p), display(I, T, p))


def outcome_build(I, T, tyb, name, steps, via='ctor'):
    T = kind_for(I, T)
    b = b_parsed(I, T, tyb, True) if via == 'parsed_long' else b_new(I, T, mk_type(I, T, tyb), name)
    for m, *args in steps:
        b = b_call(I, T, b, m, *args)
        if m == 'with_qualifier':
            if b.variant == 'Err':
                return ('err', 'with_qualifier:' + err_name(b.fields[0]), error_text(I, b.fields[0]))
            b = b.fields[0]
    r = b_build(I, T, b)
    if r.variant == 'Err':
        return ('err', err_name(r.fields[0]), error_text(I, r.fields[0]))
    p = r.fields[0]
    return ('ok', accessors(I, T, p), display(I, T, p))


def compare(L, a, b, A, B):
    if a[0] != b[0]:
        L.fail('features %s: %s, features %s: %s' % (A, a[0] if a[0] == 'ok' else a[1], B, b[0] if b[0] == 'ok' else b[1]))
        return
    if a[0] == 'err':
        if a[1] != b[1] or a[2] != b[2]:
            L.fail('error differs between features %s (%s) and %s (%s)' % (A, a[1], B, b[1]))
        return
    terms = [bytes_eq_term(a[2], b[2])] if len(a[2]) == len(b[2]) else [False]
    for f in ('type', 'ns', 'name', 'ver', 'sub'):
        x, y = a[1][f], b[1][f]
        if (x is None) != (y is None) or (x is not None and len(x) != len(y)):
            terms.append(False)
        elif x is not None:
            terms.append(bytes_eq_term(x, y))
    if len(a[1]['quals']) != len(b[1]['quals']):
        terms.append(False)
    else:
        for (k1, v1), (k2, v2) in zip(a[1]['quals'], b[1]['quals']):
            terms += [bytes_eq_term(k1, k2), bytes_eq_term(v1, v2)]
    L.check('accessors and canonical string identical under features %s and %s' % (A, B), b_and(*terms))


def h_parse(L, T, parts, sets):
    s, _ = template_bytes(L, parts)
    L.assume_utf8(s)
    req = {'op': 'parse', 'T': KINDS[T][1], 's': SymStr(s)}
    L.expect_native(req, {})
    outs = {}
    try:
        for st in sets:
            I = L.I if L.progs[st] is L.I.prog else Interp(L.progs[st], L.ctx)
            outs[st] = outcome(I, T, s)
            L.I.trace_fns |= I.trace_fns
    except Panic as e:
        L.fail('panic: %s' % e.msg)
        return 'panic'
    o = outs[sets[0]]
    L.expect_native(req, {'err': o[1], 'err_text': SymStr(o[2])} if o[0] == 'err' else {'ok': obs_expect(o[1], o[2])})
    for st in sets[1:]:
        compare(L, o, outs[st], sets[0], st)
    return 'accepted' if o[0] == 'ok' else 'rejected'


def h_build(L, T, n, steps, sets):
    tyb = L.sym_bytes('t', n)
    L.assume_utf8(tyb)
    def mat(a):
        if isinstance(a, tuple):
            b = L.sym_bytes(a[1], a[2])
            L.assume_utf8(b)
            return b
        return list(a.encode())
    st_ = [(m,) + tuple(mat(a) for a in args) for m, *args in steps]
    req = {'op': 'build', 'T': KINDS[T][1], 'type': SymStr(tyb), 'name': SymStr(list(b'n')), 'steps': [[m] + [SymStr(a) for a in args] for m, *args in st_]}
    L.expect_native(req, {})
    outs = {}
    try:
        for st in sets:
            I = L.I if L.progs[st] is L.I.prog else Interp(L.progs[st], L.ctx)
            outs[st] = outcome_build(I, T, tyb, list(b'n'), st_)
    except Panic as e:
        L.fail('panic: %s' % e.msg)
        return 'panic'
    o = outs[sets[0]]
    L.expect_native(req, {'err': o[1]} if o[0] == 'err' else {'ok': obs_expect(o[1], o[2])})
    for st in sets[1:]:
        compare(L, o, outs[st], sets[0], st)
    return 'built' if o[0] == 'ok' else 'rejected'


def h_keycmp(L, key, olen, sets):
    """comparing a stored qualifier key with an arbitrary string (`k == "..."`, `k.partial_cmp("...")`, as user code in a retain closure
    does) gives the same answer under every feature set"""
    other = L.sym_bytes('o', olen)
    L.assume_utf8(other)
    req = {'op': 'keycmp', 'key': SymStr(list(key.encode())), 'other': SymStr(other)}
    L.expect_native(req, {})
    outs = {}
    for st in sets:
        I = L.I if L.progs[st] is L.I.prog else Interp(L.progs[st], L.ctx)
        k = Adt('QualifierKey', None, [StringBuf(list(key.encode()))])
        o = RStr(other)
        eq = I.ctx.decide(I.call('<qualifiers::QualifierKey as PartialEq<&str>>::eq', [Ref([k], 0), Ref([o], 0)]))
        pc = I.call('<qualifiers::QualifierKey as PartialOrd<&str>>::partial_cmp', [Ref([k], 0), Ref([o], 0)])
        outs[st] = (eq, pc.fields[0].variant if pc.variant == 'Some' else None)
        L.I.trace_fns |= I.trace_fns
    o0 = outs[sets[0]]
    L.expect_native(req, {'eq': o0[0], 'cmp': {'Less': -1, 'Equal': 0, 'Greater': 1, None: None}[o0[1]]})
    for st in sets[1:]:
        if outs[st] != o0:
            L.fail('comparing the key %r with a string differs between features %s %r and %s %r' % (key, sets[0], o0, st, outs[st]))
    return 'accepted' if o0[0] else 'rejected'


def h_inplace(L, T, steps, sets):
    """edit-and-rebuild with fields shrunk in place (values that were long keep their allocation): same outcome under every feature set"""
    def mat(a):
        if isinstance(a, tuple):
            b = L.sym_bytes(a[1], a[2])
            L.assume_utf8(b)
            return b
        return list(a.encode())
    st_ = [(m,) + tuple(mat(a) for a in args) for m, *args in steps]
    req = {'op': 'build', 'T': KINDS[T][1], 'type': SymStr(list(b't')), 'name': SymStr(list(b'n')), 'via': 'parsed_long',
           'steps': [[m] + [SymStr(a) for a in args] for m, *args in st_]}
    L.expect_native(req, {})
    outs = {}
    try:
        for st in sets:
            I = L.I if L.progs[st] is L.I.prog else Interp(L.progs[st], L.ctx)
            outs[st] = outcome_build(I, T, list(b't'), list(b'n'), st_, via='parsed_long')
    except Panic as e:
        L.fail('panic: %s' % e.msg)
        return 'panic'
    o = outs[sets[0]]
    L.expect_native(req, {'err': o[1]} if o[0] == 'err' else {'ok': obs_expect(o[1], o[2])})
    for st in sets[1:]:
        compare(L, o, outs[st], sets[0], st)
    return 'built' if o[0] == 'ok' else 'rejected'


def queries(tier):
    th = tier == 'thorough'
    qs = []
    ALL = ['default', 'nodefault', 'pt']
    # long components shrunk in place through the public `parts` (a small string keeps its heap allocation when shortened)
    for T in ('String', 'SmallString'):
        for steps in ([('truncate_version', '0')], [('truncate_namespace', '0'), ('truncate_subpath', '0')], [('truncate_version', '3'), ('truncate_qualifier', 'download_url', '0')],
                      [('truncate_subpath', '4'), ('with_version', ('hole', 'h', 1))]):
            qs.append(Query('%s edit in place %s [%s]' % (T, steps, '|'.join(ALL)), h_inplace, {'T': T, 'steps': steps, 'sets': ALL},
                            bound='a PURL with components longer than 23 bytes, turned into a builder, %s, built; feature sets %s' % (steps, ALL), prog='default'))

    def addp(T, parts, sets):
        qs.append(Query('%s %s [%s]' % (T, show_template(parts), '|'.join(sets)), h_parse, {'T': T, 'parts': parts, 'sets': sets},
                        bound='input %s through the MIR of feature sets %s on one path' % (show_template(parts), sets), prog=sets[0]))
    for n in lens(5 if th else 4):
        addp('String', ['pkg:', ('hole', 'h', n)], ALL)
    for n in lens(5 if th else 4):
        addp('String', [('hole', 'h', n)], ALL)
    for sl in SLOTS_MIN + SLOTS_FULL:
        for n in lens(3 if th else 2, 1):
            addp('String', fill(sl, n), ALL)
    for pr in PAIRS:
        addp('String', fill(pr, 2, 2), ALL)
    for n in lens(4 if th else 3, 1):
        addp('String', ['pkg:t/n?checksum=', ('hole', 'h', n)], ALL)
    addp('String', ['pkg:t/n?checksum=a:', ('hole', 'h', 2 if th else 1), ',B:', ('hole', 'g', 2 if th else 1)], ALL)
    for parts in STRUCT_TEMPLATES(1 if th else 0) + LONG_TEMPLATES():
        addp('String', parts, ALL)
    # the small-string type parameter itself (SmartString with the feature, String without)
    for n in lens(4 if th else 3):
        addp('SmallString', ['pkg:', ('hole', 'h', n)], ALL)
    for sl in SLOTS_MIN:
        addp('SmallString', fill(sl, 2), ALL)
    # stored keys compared with arbitrary strings (QualifierKey: PartialEq<S> / PartialOrd<S> are public)
    for key in ('k', 'fi', 'ss', 'st'):
        for n in lens(3 if th else 3, 1):
            qs.append(Query('key %r compared with ⟦%d⟧ [%s]' % (key, n, '|'.join(ALL)), h_keycmp, {'key': key, 'olen': n, 'sets': ALL},
                            bound='QualifierKey(%r) == / partial_cmp every valid-UTF-8 string of %d bytes, feature sets %s' % (key, n, ALL), prog=ALL[0]))
    # typed API exists with and without smartstring
    for ty in PT_VARIANTS:
        for n in lens(3 if th else 2, 1):
            addp('Purl', ['pkg:%s/ns/' % ty, ('hole', 'h', n)], ['default', 'pt'])
    addp('Purl', ['pkg:', ('hole', 'h', 3), '/ns/n@1?k=v#s'], ['default', 'pt'])
    # names / algorithm names of two non-ASCII letters: the lower-casing paths of every feature set
    for ty in ('nuget', 'pypi'):
        addp('Purl', ['pkg:%s/' % ty, ('hole', 'h', 4)], ['default', 'pt'])
    addp('String', ['pkg:t/n?checksum=', ('hole', 'h', 4), ':'], ALL)
    for n in lens(4 if th else 2):
        for steps in ([], [('with_namespace', ('hole', 'a', 1)), ('with_version', ('hole', 'b', 1)), ('with_qualifier', ('hole', 'k', 1), ('hole', 'v', 1)), ('with_subpath', ('hole', 'c', 1))]):
            for T in ('String', 'CowB', 'SmallString'):
                qs.append(Query('%s build type=⟦%d⟧ %s [%s]' % (T, n, 'full' if steps else 'minimal', '|'.join(ALL)), h_build, {'T': T, 'n': n, 'steps': steps, 'sets': ALL},
                                bound='builder with a free %d-byte type string%s, feature sets %s' % (n, ' and free one-byte fields' if steps else '', ALL), prog='default'))
    return qs


def native_request(v):
    return v['case']


def confirm(v, resp):
    return None


def confirm_multi(v, resp, others):
    """the real crate built with each feature set must answer identically"""
    def key(r):
        if 'eq' in r and 'cmp' in r:
            return ('keycmp', r['eq'], r['cmp'])
        if 'ok' in r:
            o = r['ok']
            return ('ok', o['type'], o['ns'], o['name'], o['ver'], str(o['quals']), o['sub'], o['disp'])
        return ('err', r.get('err'), r.get('err_text'), r.get('panic'))
    k0 = key(resp)
    for s, r in others.items():
        if 'unsupported' in r:
            continue
        if key(r) != k0:
            return 'features default: %r; features %s: %r' % (k0[:2], s, key(r)[:2])
    return None


def finding_role(v, resp):
    return 'other'


vacuity = std_vacuity
LEVEL_TEXT = ('bounded symbolic model checking as a product over MIR dumps: the crate\'s MIR is regenerated for the feature sets {default}, {package-type} and {} and the same symbolic '
              'input runs through all of them on one path; acceptance, error (incl. its Display text), accessors and canonical string must be identical (solver validity query). '
              'This decides divergence in purl\'s own code between feature sets (cfg-gated code, SmallString alias); the witnesses are replayed on native oracles built with each feature set')
ASSUMPTIONS = ['SmartString::is_inline() is modelled by a high-water mark per buffer (inline while it never held more than 23 bytes); only the in-place edits listed in the queries (truncate of parts fields / a qualifier value) produce short-but-boxed values',
               'String and SmartString share one engine model, so a behavioural difference inside the smartstring crate itself is only sampled by the native replay under each feature set',
               'the {default, serde} set is covered by C16, which runs the same parser paths on the serde dump']
