"""C02 -- parsing recovers exactly the components of any legal spelling."""
from .std import *
from . import ref as R_
from .c08 import rule
from mirsym.models import chars_of, decode_char, seq_cmp

ID = 'C02'
PROGS = ['default']
NEVER_RAW = tt(b'%') | tt((0, 0x1F), 0x7F)      # '%' is always written escaped by the generator; controls too (they are legal raw, but not needed)


def hexd(n, upper):
    """ASCII hex digit of nibble n (BitVec 8 / int), letter case chosen by the Boolean `upper`"""
    if isinstance(n, int):
        n = z3.BitVecVal(n, 8)
    return z3.If(z3.ULT(n, 10), n + 0x30, z3.If(upper, n + 0x37, n + 0x57))


def spell(L, tag, b, forbid_raw):
    """one legal spelling of the component bytes `b` (valid UTF-8): every character raw, %XX with upper-case or %xx with
    lower-case hex digits (a three-way fork per character).  Characters with a byte in `forbid_raw` are always escaped."""
    I = L.I
    out, i = [], 0
    while i < len(b):
        _, w = decode_char(I, b, i)
        grp = b[i:i + w]
        must = any(in_set(I, x, forbid_raw | NEVER_RAW) for x in grp) if w == 1 else False
        if all(isinstance(x, int) for x in grp):
            how = 1 if must else 0
        else:
            how = (1 + L.ctx.choice(2, 'esc')) if must else L.ctx.choice(3, 'esc')
        if how:
            off = 0x37 if how == 1 else 0x57
            for x in grp:
                if isinstance(x, int):
                    out += [0x25] + list((b'%02X' if how == 1 else b'%02x') % x)
                else:
                    hi, lo = z3.LShR(x, 4), x & 15
                    out += [0x25, z3.simplify(z3.If(z3.ULT(hi, 10), hi + 0x30, hi + off)), z3.simplify(z3.If(z3.ULT(lo, 10), lo + 0x30, lo + off))]
        else:
            out += grp
        i += w
    return out


def comp(L, name, n, forbid=0, nonempty=True):
    if isinstance(n, str):
        return list(n.encode())
    b = L.sym_bytes(name, n)
    L.assume_utf8(b)
    for x in b:
        if forbid:
            L.assume(z3.Not(mask(x, forbid)))
    return b


def mask(x, table):
    from mirsym.ctx import mask_constraint
    return mask_constraint(x, table)


def type_comp(L, n):
    if isinstance(n, str):
        return list(n.encode())
    b = L.sym_bytes('ty', n)
    L.assume(mask(b[0], tt((0x41, 0x5A), (0x61, 0x7A))))
    for x in b[1:]:
        L.assume(mask(x, R_.TYPE_CH))
    return b


def key_comp(L, name, n):
    if isinstance(n, str):
        return list(n.encode())
    b = L.sym_bytes(name, n)
    L.assume(mask(b[0], tt((0x41, 0x5A), (0x61, 0x7A))))
    for x in b[1:]:
        L.assume(mask(x, R_.KEY_CH))
    return b


def slashes(L, lo=0, hi=2, shape=None):
    if shape is not None and isinstance(shape.get('sl'), int) and not isinstance(shape.get('sl'), bool):
        hi = shape['sl']          # longer runs of extra slashes
    return _slashes(L, lo, hi)


def _slashes(L, lo=0, hi=2):
    return [0x2F] * (lo + L.ctx.choice(hi - lo + 1, 'sl'))


def h_spelling(L, T, shape):
    """build one spelling of a component tuple, parse it, compare with the tuple"""
    I = L.I
    SL = tt(b'/')
    ty = type_comp(L, shape.get('ty', 1)) if T != 'Purl' else list(shape['tyname'].encode())
    if T == 'Purl':
        # any letter case of the known name
        m = L.sym_bytes('tm', 1)[0]
        ty_sp = [z3.simplify(z3.If(z3.Extract(i % 8, i % 8, m) == 1, z3.BitVecVal(c ^ 0x20, 8), z3.BitVecVal(c, 8))) for i, c in enumerate(ty)]
    else:
        ty_sp = ty
    SLASH = shape.get('sl', False)
    s = list(b'pkg:') + (slashes(L) if SLASH else []) + ty_sp + [0x2F]
    want = {'ns': None, 'ver': None, 'sub': None, 'quals': []}
    has_ver, has_q, has_sub = 'ver' in shape, 'quals' in shape, 'sub' in shape
    # raw separators are legal left of the designated separator when the later component is present
    raw_ok = (tt(b'@') if has_ver else 0) | (tt(b'?') if has_q else 0) | (tt(b'#') if has_sub else 0)
    if 'ns' in shape:
        segs = []
        for i, n in enumerate(shape['ns']):
            sg = comp(L, 'ns%d_' % i, n, forbid=SL)
            if len(sg) == 0:
                raise Discard()
            segs.append(sg)
            s += (slashes(L, 0, 1, shape) if SLASH else []) + spell(L, 'ns%d' % i, sg, tt(b'@?#') & ~raw_ok) + [0x2F]
        j = []
        for i, sg in enumerate(segs):
            if i:
                j.append(0x2F)
            j += sg
        want['ns'] = j
    name = comp(L, 'nm', shape.get('name', 1))
    s += spell(L, 'nm', name, (tt(b'/@?#') & ~raw_ok) | SL)
    want['name'] = rule(L, shape['tyname'], name) if T == 'Purl' else name
    if has_ver:
        ver = comp(L, 'vr', shape['ver'])
        # a raw '@' inside the version would move the split point: always escaped there; '/' is legal raw in a version
        s += [0x40] + spell(L, 'vr', ver, tt(b'@') | (tt(b'?#') & ~((tt(b'?') if has_q else 0) | (tt(b'#') if has_sub else 0))))
        want['ver'] = ver
    if has_q:
        items = []
        for i, (kn, vn) in enumerate(shape['quals']):
            k = key_comp(L, 'k%d_' % i, kn)
            v = comp(L, 'v%d_' % i, vn)
            items.append((k, v))
        # keys distinct ignoring case
        for i in range(len(items)):
            for j in range(i):
                if R_.eq(L, R_.lower(L, items[i][0]), R_.lower(L, items[j][0])):
                    raise Discard()
        order = list(range(len(items)))
        if len(items) == 2 and L.ctx.choice(2, 'ord') == 1:
            order = [1, 0]
        pieces = []
        for i in order:
            k, v = items[i]
            pieces.append(k + [0x3D] + spell(L, 'v%d' % i, v, tt(b'&?') | (tt(b'#') if not has_sub else 0)))
        if shape.get('empty_qual'):
            pos = L.ctx.choice(len(pieces) + 1, 'eq')
            pieces.insert(pos, list(b'zz9='))
        s += [0x3F]
        for i, p in enumerate(pieces):
            if i:
                s.append(0x26)
            s += p
        srt = []
        for k, v in items:
            lk = R_.lower(L, k)
            pos = 0
            while pos < len(srt) and seq_cmp(I, srt[pos][0], lk) < 0:
                pos += 1
            srt.insert(pos, (lk, v))
        want['quals'] = srt
    if has_sub:
        segs = []
        s += [0x23] + (slashes(L, 0, 1) if SLASH else [])
        for i, n in enumerate(shape['sub']):
            sg = comp(L, 'sb%d_' % i, n, forbid=SL)
            if len(sg) == 0 or R_.is_dots(L, sg):
                raise Discard()
            segs.append(sg)
            if i:
                s += [0x2F] + (slashes(L, 0, 1, shape) if SLASH else [])
            d = L.ctx.choice(3, 'dot') if shape.get('dots') else 0
            if d:
                s += [0x2E] * d + [0x2F]
            # a segment written fully raw must not look like '.' / '..' (it is not, by the constraint above)
            s += spell(L, 'sb%d' % i, sg, tt(b'#'))
        s += (slashes(L, 0, 1) if SLASH else [])
        j = []
        for i, sg in enumerate(segs):
            if i:
                j.append(0x2F)
            j += sg
        want['sub'] = j
    want['type'] = R_.lower(L, ty) if T != 'Purl' else ty
    if not models_utf8(L, s):
        raise Discard()
    req = {'op': 'parse', 'T': KINDS[T][1], 's': SymStr(s)}
    L.expect_native(req, {})
    try:
        r = from_str(I, T, s)
    except Panic as e:
        L.fail('panic: %s' % e.msg)
        return 'panic'
    if r.variant == 'Err':
        L.expect_native(req, {'err': err_name(r.fields[0])})
        if T == 'Purl' and shape['tyname'] == 'maven' and want['ns'] is None:
            return 'maven-no-namespace'
        L.fail('a legal spelling is refused with %s' % err_name(r.fields[0]))
        return 'rejected'
    p = r.fields[0]
    acc = accessors(I, T, p)
    disp = display(I, T, p)
    L.expect_native(req, {'ok': obs_expect(acc, disp)})
    terms = []
    for f in ('type', 'ns', 'name', 'ver', 'sub'):
        x, y = acc[f], want[f]
        if (x is None) != (y is None) or (x is not None and len(x) != len(y)):
            L.fail('component %s is not recovered from a legal spelling' % f)
            return 'accepted'
        if x is not None:
            terms.append(bytes_eq_term(x, y))
    if len(acc['quals']) != len(want['quals']) or any(len(a[0]) != len(b[0]) or len(a[1]) != len(b[1]) for a, b in zip(acc['quals'], want['quals'])):
        L.fail('qualifiers are not recovered from a legal spelling')
        return 'accepted'
    for (k1, v1), (k2, v2) in zip(acc['quals'], want['quals']):
        terms += [bytes_eq_term(k1, k2), bytes_eq_term(v1, v2)]
    L.check('every component equals the tuple the spelling was built from', b_and(*terms))
    # identical canonical string for every spelling: it is the documented rendering of the tuple
    ref = ref_render(L, {'type': want['type'], 'ns': want['ns'], 'name': want['name'], 'ver': want['ver'], 'quals': want['quals'], 'sub': want['sub']})
    if len(ref) != len(disp):
        L.fail('the canonical string depends on the spelling')
    else:
        L.check('canonical string == rendering of the tuple (hence identical for all spellings)', bytes_eq_term(disp, ref))
    return 'accepted'


def models_utf8(L, s):
    from mirsym.models import utf8_valid
    return utf8_valid(L.I, s)


def h_converse(L, T, parts):
    """bounded language: wherever the independent reference reading accepts with components X, the parser returns X"""
    I = L.I
    s, _ = template_bytes(L, parts)
    L.assume_utf8(s)
    req = {'op': 'parse', 'T': KINDS[T][1], 's': SymStr(s)}
    L.expect_native(req, {})
    try:
        r = from_str(I, T, s)
    except Panic as e:
        L.fail('panic: %s' % e.msg)
        return 'panic'
    R = R_.read(L, s)
    if R.unspecified or R.defects:
        L.expect_native(req, {'err': err_name(r.fields[0])} if r.variant == 'Err' else {'ok': {}})
        return 'not-in-language'
    tyname = None
    if T == 'Purl':
        for nm in PT_VARIANTS:
            if R_.eq(L, R.type, list(nm.encode())):
                tyname = nm
        if tyname is None or (tyname == 'maven' and not R.ns):
            return 'not-in-language'
    if r.variant == 'Err':
        L.expect_native(req, {'err': err_name(r.fields[0])})
        L.fail('a string the strict reference accepts is refused with %s' % err_name(r.fields[0]))
        return 'rejected'
    p = r.fields[0]
    acc = accessors(I, T, p)
    L.expect_native(req, {'ok': obs_expect(acc)})
    def join(segs):
        if not segs:
            return None
        j = []
        for i, sg in enumerate(segs):
            if i:
                j.append(0x2F)
            j += sg
        return j
    srt = []
    for k, v in R.quals:
        pos = 0
        while pos < len(srt) and seq_cmp(I, srt[pos][0], k) < 0:
            pos += 1
        srt.insert(pos, (k, v))
    ck = None
    for i, (k, v) in enumerate(srt):
        if all(isinstance(x, int) for x in k) and bytes(k) == b'checksum':
            ck = i
    want = {'type': R.type, 'ns': join(R.ns), 'name': rule(L, tyname, R.name) if T == 'Purl' else R.name, 'ver': R.ver, 'sub': join(R.sub)}
    terms = []
    for f in ('type', 'ns', 'name', 'ver', 'sub'):
        x, y = acc[f], want[f]
        if (x is None) != (y is None) or (x is not None and len(x) != len(y)):
            L.fail('component %s differs from the strict left-to-right reading' % f)
            return 'accepted'
        if x is not None:
            terms.append(bytes_eq_term(x, y))
    if len(acc['quals']) != len(srt):
        L.fail('qualifiers differ from the strict reading')
        return 'accepted'
    for i, ((k1, v1), (k2, v2)) in enumerate(zip(acc['quals'], srt)):
        if i == ck:
            terms.append(bytes_eq_term(k1, k2))
            continue       # the checksum value is canonicalised (C12)
        if len(k1) != len(k2) or len(v1) != len(v2):
            L.fail('a qualifier differs from the strict reading')
            return 'accepted'
        terms += [bytes_eq_term(k1, k2), bytes_eq_term(v1, v2)]
    L.check('components == strict reference reading', b_and(*terms))
    return 'accepted'


def queries(tier):
    # thorough = the quick inputs with full witness replay and the cvc5 cross-check (three free bytes per component under every
    # spelling ran past the two-hour cap twice)
    th = False
    qs = []
    c = 2          # (three free bytes per component under every spelling of every character ran past the two-hour cap in the thorough tier)
    F = {'ty': 't', 'ns': ['a'], 'name': 'n', 'ver': '1', 'quals': [('k', 'v')], 'sub': ['s']}
    shapes = [
        {'name': c}, {'ty': 3, 'name': 'n'}, {'ns': [c], 'name': 'n'}, {'ns': [1, 'b'], 'name': 'n', 'sl': True}, {'ns': ['a', 1], 'name': 'n', 'sl': True},
        {'name': 'n', 'ver': c}, {'name': 'n', 'quals': [('k', c)]}, {'name': 'n', 'quals': [(2, 'v')]}, {'name': 'n', 'quals': [(1, 'v'), (1, 'w')]},
        {'name': 'n', 'quals': [('k', 1), ('L', 'w')]}, {'name': 'n', 'quals': [('k', 1)], 'empty_qual': True}, {'name': 'n', 'quals': [(1, 'v')], 'empty_qual': True},
        {'name': 'n', 'sub': [c], 'dots': True}, {'name': 'n', 'sub': [1, 'b'], 'sl': True, 'dots': True}, {'name': 'n', 'sub': ['a', 1], 'sl': True, 'dots': True},
        # raw @ ? # left of the designated separator
        {'name': 1, 'ver': '1'}, {'ns': [1], 'name': 'n', 'ver': '1'}, {'name': 1, 'quals': [('k', 'v')]}, {'name': 'n', 'ver': 1, 'quals': [('k', 'v')]},
        {'name': 1, 'sub': ['s']}, {'name': 'n', 'ver': 1, 'sub': ['s']}, {'name': 'n', 'quals': [('k', 1)], 'sub': ['s']}, {'ns': [1], 'name': 'n', 'sub': ['s']},
        # one free component in the full context
        dict(F, ty=2), dict(F, ns=[1]), dict(F, name=1), dict(F, ver=1), dict(F, quals=[(1, 'v')]), dict(F, quals=[('k', 1)]), dict(F, sub=[1]),
        dict(F, name=1, sl=True, dots=True),
        # longer runs of extra slashes between concrete segments
        {'ns': ['a', 'b', 1], 'name': 'n', 'sl': 3}, {'name': 'n', 'sub': ['a', 'b'], 'sl': 3},
    ]
    if th:
        shapes += [{'ns': [2, 1], 'name': 'n', 'sl': True}, {'name': 2, 'ver': 1}, {'name': 'n', 'quals': [(1, 1), (1, 'w')]}, {'name': 'n', 'quals': [(2, 1)]},
                   {'name': 1, 'ver': 1, 'quals': [(1, 'v')], 'sub': [1]}, {'name': 'n', 'sub': [2, 1], 'sl': True, 'dots': True}, dict(F, name=2, ver=1), dict(F, ns=[1, 1], sub=[1], sl=True, dots=True),
                   {'name': 3}, {'ns': [3], 'name': 'n'}, {'name': 'n', 'ver': 3}]
    for sh in shapes:
        qs.append(Query('String spelling %s' % sh, h_spelling, {'T': 'String', 'shape': sh},
                        bound='component tuple with free bytes %s; every character raw or escaped, either hex case, extra slashes, dot segments, qualifier order' % sh))
    for tyname in PT_VARIANTS:
        for sh in ({'name': 2 if th and tyname in ('nuget', 'pypi') else 1, 'ns': ['a']}, {'name': 1, 'ns': ['a'], 'ver': '1', 'quals': [('k', 'v')], 'sub': ['s']}):
            sh = dict(sh, tyname=tyname)
            qs.append(Query('Purl spelling %s' % sh, h_spelling, {'T': 'Purl', 'shape': sh}, bound='typed tuple %s in any letter case of the type' % sh))
    def addc(T, parts):
        qs.append(Query('%s converse %s' % (T, show_template(parts)), h_converse, {'T': T, 'parts': parts}, bound='every valid-UTF-8 filling of %s that the strict reference accepts' % show_template(parts)))
    for n in lens(5 if th else 4):
        addc('String', ['pkg:', ('hole', 'h', n)])
    for sl in SLOTS_MIN + SLOTS_FULL:
        for n in lens(4 if th else 3, 1):
            addc('String', fill(sl, n))
    for pr in PAIRS:
        for a in lens(3 if th else 2, 1):
            for b in lens(2, 1):
                addc('String', fill(pr, a, b))
    for n in lens(4 if th else 3, 1):
        addc('String', ['pkg:t/n?checksum=', ('hole', 'h', n)])
    for parts in STRUCT_TEMPLATES(1 if th else 0) + LONG_TEMPLATES():
        addc('String', parts)
    for ty in PT_VARIANTS:
        for n in lens(3 if th else 2, 1):
            addc('Purl', ['pkg:%s/ns/' % ty, ('hole', 'h', n)])
        addc('Purl', ['pkg:%s/' % ty, ('hole', 'h', 2), '/n@1?k=v#s'])
        if ty in ('nuget', 'pypi'):
            # names mixing an ASCII capital with a following non-ASCII letter (the name rule applies to the whole name)
            addc('Purl', ['pkg:%s/ns/A' % ty, ('hole', 'h', 2)])
            addc('Purl', ['pkg:%s/ns/' % ty, ('hole', 'h', 2), 'A'])
    return qs


class _NullL:
    I = None


def native_request(v):
    return v['case']


def confirm(v, resp):
    """concrete: the strict reference reading of the input against the real crate's answer"""
    if 'panic' in resp:
        return 'panicked: %s' % resp['panic']
    s = list(bytes.fromhex(v['case']['s']))
    R = R_.read(_NullL, s)
    if R.unspecified or R.defects:
        return None
    T = v['case']['T']
    text = bytes(s).decode('utf8', 'replace')
    tyname = bytes(R.type).decode()
    if T == 'Purl' and (tyname not in PT_VARIANTS or (tyname == 'maven' and not R.ns)):
        return None
    if 'ok' not in resp:
        return '%r is a legal spelling but is refused with %s' % (text, resp.get('err'))
    o = resp['ok']
    join = lambda segs: b'/'.join(bytes(x) for x in segs) if segs else None
    if hx(o['type']) != bytes(R.type) or hx(o['ns']) != join(R.ns) or hx(o['ver']) != (bytes(R.ver) if R.ver else None) or hx(o['sub']) != join(R.sub):
        return '%r: type/namespace/version/subpath %r differ from the strict reading' % (text, (hx(o['type']), hx(o['ns']), hx(o['ver']), hx(o['sub'])))
    if T != 'Purl' and hx(o['name']) != bytes(R.name):
        return '%r: name %r differs from %r' % (text, hx(o['name']), bytes(R.name))
    if T == 'Purl' and 'expect_lower' in resp:
        want = hx(resp['expect_lower']) if tyname == 'nuget' else hx(resp['expect_pypi']) if tyname == 'pypi' else bytes(R.name)
        if hx(o['name']) != want:
            return '%r: %s name %r differs from the type\'s name rule applied to the written name (%r)' % (text, tyname, hx(o['name']), want)
    want = sorted((bytes(k), bytes(x)) for k, x in R.quals)
    got = [(hx(k), hx(x)) for k, x in o['quals']]
    if [k for k, _ in got] != [k for k, _ in want] or any(a != b for a, b in zip(got, want) if a[0] != b'checksum'):
        return '%r: qualifiers %r differ from %r' % (text, got, want)
    return None


def finding_role(v, resp):
    return 'other'


def vacuity(results):
    probs = []
    tags = {}
    for r in results:
        for k, n in r['outcomes'].items():
            tags[k] = tags.get(k, 0) + n
    for w in ('accepted', 'not-in-language'):
        if not tags.get(w):
            probs.append('no leaf with outcome ' + w)
    return probs


LEVEL_TEXT = ('bounded symbolic model checking of the real MIR: (1) a spelling is constructed symbolically from a symbolic component tuple -- each character raw or %XX (fork) with the hex '
              'case of every digit and the letter case of type and keys as solver variables, 0-2 extra slashes, inserted dot segments, qualifier order, an interleaved empty qualifier, raw '
              '@ ? # where a later component makes them legal -- and `accessors == tuple` and `canonical string == rendering of the tuple` are solver validity queries; (2) on the bounded '
              'language of the templates an independent strict reference reading runs on the same symbolic bytes and wherever it accepts, the parser must return its components')
