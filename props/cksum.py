"""Typed checksum value: interpreted operations and a reference map."""
from .std import *
from . import ref as R_
from mirsym.models import seq_cmp, chars_of, char_lower_seq, zx

CK = "Checksum<'_>"


def ck_default(I):
    return I.call("<%s as Default>::default" % CK, [])


def ck_from(I, b):
    return I.call("<%s as TryFrom<&str>>::try_from" % CK, [RStr(b)])


def ck_insert_raw(I, ck, alg, val):
    I.call("Checksum::<'_>::insert_raw", [Ref([ck], 0), RStr(alg), StringBuf(val)])


def ck_insert(I, ck, alg, data):
    I.call("Checksum::<'_>::insert::<Vec<u8>>", [Ref([ck], 0), RStr(alg), VecVal(list(data))])


def ck_remove(I, ck, alg):
    I.call("Checksum::<'_>::remove", [Ref([ck], 0), RStr(alg)])


def ck_get_raw(I, ck, alg):
    return I.call("Checksum::<'_>::get_raw", [Ref([ck], 0), RStr(alg)])


def ck_get(I, ck, alg):
    return I.call("Checksum::<'_>::get::<Vec<u8>>", [Ref([ck], 0), RStr(alg)])


def ck_text(I, ck):
    return I.call("<SmartString<LazyCompact> as TryFrom<%s>>::try_from" % CK, [ck])


def lower_chars(L, b):
    out = []
    for ch in chars_of(L.I, b):
        out.extend(char_lower_seq(L.I, ch))
    return [zx(x) for x in out]


def chars_eq(L, a, b):
    return len(a) == len(b) and seq_cmp(L.I, a, b) == 0


class RefCk:
    """reference: map from lower-cased algorithm (scalar values) to raw text"""
    def __init__(self):
        self.e = []     # [(alg scalars, alg bytes lowercased as produced, raw bytes)]

    def find(self, L, la):
        for i, (a, _) in enumerate(self.e):
            if chars_eq(L, a, la):
                return i
        return None

    def insert_raw(self, L, alg, raw):
        la = lower_chars(L, alg)
        i = self.find(L, la)
        if i is None:
            self.e.append((la, list(raw)))
        else:
            self.e[i] = (la, list(raw))

    def remove_exact(self, L, alg):
        # remove / get match the stored (lower-cased) name exactly
        a = [zx(x) for x in chars_of(L.I, alg)]
        i = self.find(L, a)
        if i is not None:
            self.e.pop(i)

    def get_exact(self, L, alg):
        a = [zx(x) for x in chars_of(L.I, alg)]
        i = self.find(L, a)
        return None if i is None else self.e[i][1]

    def canonical(self, L):
        """(ok, text bytes as list of scalars->bytes) sorted by algorithm, lower hex"""
        from mirsym.models import encode_char
        es = list(self.e)
        # sort by UTF-8 bytes of the lower-cased algorithm == by scalar values
        es2 = []
        for a, r in es:
            pos = 0
            while pos < len(es2) and seq_cmp(L.I, es2[pos][0], a) < 0:
                pos += 1
            es2.insert(pos, (a, r))
        out = []
        for i, (a, r) in enumerate(es2):
            if len(r) % 2 != 0 or not all(in_set(L.I, x, R_.HEXD) for x in r):
                return False, None
            if i:
                out.append(0x2C)
            for ch in a:
                out.extend(encode_char(L.I, ch))
            out.append(0x3A)
            out.extend(R_.lower(L, r))
        return True, out
