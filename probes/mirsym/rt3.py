import sys, z3, time
from interp import *
import interp, models2
from models2 import Fmt, S
FROM_STR = 'parse::<impl at src/parse.rs:160:1: 163:56>::from_str'
TY_PT = {'T': {'self': 'package_type::PackageType', 'Error': 'PackageError', 'Err': 'UnsupportedPackageType'},
         'Q': {'self': 'Checksum', 'Error': 'X', 'Err': 'X'}}

def main():
    fns = parse(open('/tmp/mirx/purl.mir').read())
    ctx = Ctx([])
    I = Interp(fns, ctx)
    I.tysub = TY_PT
    r = I.call_fn(fns[FROM_STR], [RStr((sys.argv[1] if len(sys.argv) > 1 else "pkg:NuGet/Foo.Bar@1").encode())])
    print(r)
if __name__ == "__main__": main()
