import sys, z3, time
from interp import *
import interp, models2

def concrete(s): return RStr(s.encode())
TY_STRING = {'T': {'self': 'String', 'Error': 'parse::ParseError', 'Err': 'Infallible'}, 'Q': {'self': 'Checksum', 'Error': 'X', 'Err': 'X'}}
FROM_STR = 'parse::<impl at src/parse.rs:160:1: 163:56>::from_str'

def main():
    fns = parse(open('/tmp/mirx/purl.mir').read())
    ctx = Ctx([])
    I = Interp(fns, ctx)
    I.tysub = TY_STRING
    r = I.call_fn(fns[FROM_STR], [concrete(sys.argv[1] if len(sys.argv) > 1 else "pkg:t/n?k=v#s")])
    print(r)

if __name__ == '__main__':
    main()
