"""Spike part 2: resolver for impl fns + more API-level models, enough for from_str/build/Display."""
import re
import z3
import interp
from interp import *

def norm_ty(t):
    t = re.sub(r"'\w+\s*,?\s*", '', t)          # lifetimes
    t = t.replace('<>', '')
    t = re.sub(r'^&(mut )?', '', t.strip())
    t = re.sub(r'\b(\w+::)+', '', t)             # drop module paths
    return t.strip()

def build_index(fns):
    idx = {}
    for name, f in fns.items():
        m = re.match(r'^(?:.*<impl at [^>]*>)::(\w+)$', name)
        if m:
            idx.setdefault(m.group(1), []).append(f)
    return idx

def apply_tysub(I, s):
    for k, v in getattr(I, 'tysub', {}).items():
        s = s.replace(f'<{k} as PurlShape>::Error', v['Error']).replace(f'<{k} as FromStr>::Err', v['Err'])
        s = re.sub(r'\b%s\b' % k, v['self'], s)
    return s

def resolve(I, callee):
    callee = apply_tysub(I, callee)
    key = re.sub(r"<'_>|'_, ?|::<'_>", '', callee)
    if not hasattr(I, 'idx'): I.idx = build_index(I.fns)
    stripped = re.sub(r'::<[^()]*>$', '', key)
    for name in (callee, key, key.replace('parse::', ''), stripped, stripped.replace('parse::', '')):
        if name in I.fns: return ('mir', I.fns[name])
    for pat, fn in interp.MODELS:
        if re.fullmatch(pat, key): return ('model', fn)
    # impl method resolution
    m = re.match(r'^<(.*) as ([\w:]+)(<.*>)?>::(\w+)(::<.*>)?$', key)
    if m:
        selft, trait, targs, meth = norm_ty(m.group(1)), m.group(2), m.group(3), m.group(4)
    else:
        segs, depth, cur = [], 0, ''
        j = 0
        while j < len(key):
            ch = key[j]
            if ch in '<([': depth += 1
            elif ch in '>)]' and key[j-1:j+1] != '->': depth -= 1
            if depth == 0 and key.startswith('::', j):
                segs.append(cur); cur = ''; j += 2; continue
            cur += ch; j += 1
        segs.append(cur)
        segs = [s for s in segs if not s.startswith('<') or ' as ' in s]
        if len(segs) < 2: raise Unsupported('callee ' + key)
        selft, trait, targs, meth = norm_ty(segs[-2]), None, None, segs[-1]
    cands = []
    for f in I.idx.get(meth, []):
        ptys = [norm_ty(t) for _, t in f.params]
        rty = norm_ty(f.ret)
        selfbase = selft.split('<')[0]
        if ptys and ptys[0].split('<')[0] == selfbase: cands.append(f)
        elif not ptys and rty.split('<')[0] == selfbase: cands.append(f)
        elif meth in ('from', 'try_from', 'from_str') and selfbase in rty: cands.append(f)
    if trait in ('From', 'TryFrom') and targs and len(cands) > 1:
        src = norm_ty(targs[1:-1])
        cands = [f for f in cands if norm_ty(f.params[0][1]).split('<')[0] == src.split('<')[0]]
    if meth == 'fmt' and len(cands) > 1:
        # derive(Debug) impls have spans on one line inside #[derive]; Display impls are real impl blocks
        want_display = trait is not None and trait.endswith('Display')
        def is_derive(f):
            m2 = re.search(r'<impl at [^:]+:(\d+):(\d+): (\d+):(\d+)>', f.name)
            return m2 and m2.group(1) == m2.group(3) and int(m2.group(4)) - int(m2.group(2)) <= 12
        cands = [f for f in cands if is_derive(f) != want_display] or cands
    if len(cands) > 1:
        raw = re.match(r'^<(.*?) as ', key)
        if raw:
            kind = 'mut' if raw.group(1).startswith('&mut') else ('ref' if raw.group(1).startswith('&') else 'val')
            def pk(f):
                t = re.sub(r"'\w+ ", '', f.params[0][1])
                return 'mut' if t.startswith('&mut') else ('ref' if t.startswith('&') else 'val')
            cands = [f for f in cands if pk(f) == kind] or cands
    if len(cands) == 1: return ('mir', cands[0])
    raise Unsupported('callee %s (self=%s meth=%s cands=%d)' % (key, selft, meth, len(cands)))

def call(self, callee, argv):
    kind, target = resolve(self, callee)
    if kind == 'mir': return self.call_fn(target, argv)
    return target(self, *argv)
Interp.call = call

# ------------------------------------------------------------------ more models
def S(v):  # to byte tuple
    v = strof(v)
    return tuple(v.b)

@model(r'core::str::<impl str>::strip_prefix::<&str>')
def m_strip_prefix(I, s, p):
    sb, pb = S(s), S(p)
    if len(sb) < len(pb): return NONE()
    for x, y in zip(sb, pb):
        if not beq(I.ctx, x, y): return NONE()
    return Some(RStr(sb[len(pb):]))

@model(r'Option::<.*>::ok_or::<.*>')
def m_ok_or(I, o, e): return Ok(o.fields[0]) if o.variant == 'Some' else Err(e)

@model(r'core::str::<impl str>::trim_start_matches::<char>')
def m_trim_start(I, s, ch):
    b = list(S(s))
    while b and beq(I.ctx, b[0], ch): b.pop(0)
    return RStr(b)

@model(r'core::str::<impl str>::rsplit_once::<char>')
def m_rsplit_once(I, s, ch):
    b = S(s)
    for i in range(len(b) - 1, -1, -1):
        if beq(I.ctx, b[i], ch): return Some([RStr(b[:i]), RStr(b[i + 1:])])
    return NONE()

@model(r'core::str::<impl str>::split_once::<char>')
def m_split_once(I, s, ch):
    b = S(s)
    for i in range(len(b)):
        if beq(I.ctx, b[i], ch): return Some([RStr(b[:i]), RStr(b[i + 1:])])
    return NONE()

@model(r'core::str::<impl str>::(is_empty|len)')
def m_str_is_empty(I, s): return len(S(s)) == 0

@model(r'<SmartString<LazyCompact> as Default>::default|String::new')
def m_ss_default(I): return StringBuf()

@model(r'<Vec<.*> as Default>::default|Vec::<.*>::new')
def m_vec_default(I): return []

@model(r'<parse::ParseError as Into<parse::ParseError>>::into|<parse::ParseError as From<parse::ParseError>>::from')
def m_identity(I, x): return x

@model(r'<String as FromStr>::from_str')
def m_string_from_str(I, s): return Ok(StringBuf(S(s)))

@model(r'<Cow<str> as Into<SmartString<LazyCompact>>>::into|<SmartString<LazyCompact> as From<.*>>::from')
def m_into_ss(I, c): return StringBuf(S(c))

@model(r'<(&str|K|S|&S) as AsRef<str>>::as_ref|<&&str as AsRef<str>>::as_ref')
def m_as_ref(I, r):
    v = r.get() if isinstance(r, Ref) else r
    while isinstance(v, Ref): v = v.get()
    if isinstance(v, Adt) and v.ty in ('MixedQualifierKey', 'QualifierKey'):
        # dynamic dispatch on the run-time type tag to the crate's own impl
        for f in I.idx['as_ref']:
            if v.ty in f.params[0][1]: return I.call_fn(f, [Ref([v], 0)])
    return RStr(S(v))

@model(r'<(SmartString<LazyCompact>|String) as Deref>::deref|SmartString::<LazyCompact>::as_str|<String as Deref>::deref')
def m_ss_deref(I, r): return RStr(S(r))

class StrMut:
    """&mut str view onto a StringBuf"""
    def __init__(self, buf): self.buf = buf
    @property
    def b(self): return tuple(self.buf.b)

@model(r'<(SmartString<LazyCompact>|String) as DerefMut>::deref_mut')
def m_ss_deref_mut(I, r): return StrMut(r.get())

@model(r'core::str::<impl str>::make_ascii_lowercase')
def m_make_ascii_lower(I, sm):
    buf = sm.buf if isinstance(sm, StrMut) else sm.get()
    for i, x in enumerate(buf.b):
        if isinstance(x, int):
            if 0x41 <= x <= 0x5A: buf.b[i] = x + 0x20
        elif in_range(I.ctx, x, 0x41, 0x5A): buf.b[i] = x + 0x20

class CharsIt:
    def __init__(self, b): self.b, self.i = b, 0

def decode_char(I, b, i):
    """returns (char value, width); forks on lead byte class; input is valid utf-8"""
    x = b[i]
    if in_range(I.ctx, x, 0, 0x7F): return x if isinstance(x, int) else z3.ZeroExt(24, x), 1
    def w(v): return v if isinstance(v, int) else z3.ZeroExt(24, v)
    if in_range(I.ctx, x, 0xC0, 0xDF): return ((w(x) & 0x1F) << 6) | (w(b[i + 1]) & 0x3F), 2
    if in_range(I.ctx, x, 0xE0, 0xEF): return ((w(x) & 0x0F) << 12) | ((w(b[i + 1]) & 0x3F) << 6) | (w(b[i + 2]) & 0x3F), 3
    return ((w(x) & 0x07) << 18) | ((w(b[i + 1]) & 0x3F) << 12) | ((w(b[i + 2]) & 0x3F) << 6) | (w(b[i + 3]) & 0x3F), 4

@model(r'core::str::<impl str>::chars')
def m_chars(I, s): return CharsIt(S(s))

@model(r'<Chars as IntoIterator>::into_iter')
def m_chars_into(I, c): return c

def chars_next(I, it):
    if it.i >= len(it.b): return None
    c, w = decode_char(I, it.b, it.i); it.i += w
    return c

@model(r'<Chars as Iterator>::next')
def m_chars_next(I, r):
    c = chars_next(I, r.get() if isinstance(r, Ref) else r)
    return NONE() if c is None else Some(c)

def call_closure(I, clo, args, mutref=True):
    # clo: ('closure', 'ZeroSized: {closure@SPAN}') or Adt with ty '{closure@SPAN}'
    span = re.search(r'\{closure@([^}]*)\}', clo[1] if isinstance(clo, tuple) else clo.ty).group(1)
    for name, f in I.fns.items():
        if '{closure#' in name and f.params and span in f.params[0][1]:
            first = f.params[0][1]
            a0 = Ref([clo], 0) if first.startswith('&') else clo
            return I.call_fn(f, [a0] + list(args))
    raise Unsupported('closure ' + span)

@model(r'<Chars as Iterator>::all::<\{closure@.*\}>')
def m_chars_all(I, r, clo):
    it = r.get() if isinstance(r, Ref) else r
    while True:
        c = chars_next(I, it)
        if c is None: return True
        res = call_closure(I, clo, [c])
        if not I.ctx.decide(res): return False

@model(r'char::methods::<impl char>::is_ascii_alphanumeric')
def m_is_alnum(I, r):
    c = r.get() if isinstance(r, Ref) else r
    if isinstance(c, int): return chr(c).isascii() and chr(c).isalnum()
    return z3.Or(z3.And(z3.UGE(c, 0x30), z3.ULE(c, 0x39)), z3.And(z3.UGE(c, 0x41), z3.ULE(c, 0x5A)), z3.And(z3.UGE(c, 0x61), z3.ULE(c, 0x7A)))

@model(r'char::methods::<impl char>::is_ascii_lowercase')
def m_is_lower(I, r):
    c = r.get() if isinstance(r, Ref) else r
    if isinstance(c, int): return 0x61 <= c <= 0x7A
    return z3.And(z3.UGE(c, 0x61), z3.ULE(c, 0x7A))

@model(r'core::slice::<impl \[char\]>::contains')
def m_char_slice_contains(I, sl, item):
    arr = sl.get() if isinstance(sl, Ref) else sl
    c = item.get() if isinstance(item, Ref) else item
    if isinstance(c, int): return c in arr
    return z3.Or([c == a for a in arr])

# ---- Vec<(QualifierKey, SmallString)>
@model(r'core::slice::<impl \[\(QualifierKey, SmartString<LazyCompact>\)\]>::binary_search_by::<\{closure@.*\}>|<Vec<.*> as Deref>::deref')
def m_bsearch_or_deref(I, *a):
    if len(a) == 1: return a[0]  # Vec deref -> slice (same list)
    sl, clo = a
    v = sl.get() if isinstance(sl, Ref) else sl
    lo, size = 0, len(v)
    if size == 0: return Err(0)
    base = 0
    while size > 1:
        half = size // 2; mid = base + half
        o = call_closure(I, clo, [Ref(v, mid)])
        if o.variant != 'Greater': base = mid
        size -= half
    o = call_closure(I, clo, [Ref(v, base)])
    if o.variant == 'Equal': return Ok(base)
    return Err(base + (1 if o.variant == 'Less' else 0))

def cmp_iter(I, a, b):
    """lexicographic cmp of two lists of char values"""
    for x, y in zip(a, b):
        if isinstance(x, int) and isinstance(y, int):
            if x != y: return Adt('Ordering', 'Less' if x < y else 'Greater', [])
        else:
            if not I.ctx.decide(x == y):
                return Adt('Ordering', 'Less' if I.ctx.decide(z3.ULT(x, y)) else 'Greater', [])
    if len(a) == len(b): return Adt('Ordering', 'Equal', [])
    return Adt('Ordering', 'Less' if len(a) < len(b) else 'Greater', [])

@model(r'Option::<std::cmp::Ordering>::unwrap|Result::<.*>::unwrap')
def m_opt_unwrap(I, o):
    if o.variant in ('None', 'Err'): raise Panic('unwrap on ' + o.variant)
    return o.fields[0]

@model(r'Vec::<\(QualifierKey, SmartString<LazyCompact>\)>::insert')
def m_vec_insert(I, r, idx, item):
    v = r.get()
    if idx > len(v): raise Panic('Vec::insert index out of bounds')
    v.insert(idx, item)

@model(r'<Vec<\(QualifierKey, SmartString<LazyCompact>\)> as IndexMut<usize>>::index_mut|<Vec<\(QualifierKey, SmartString<LazyCompact>\)> as Index<usize>>::index')
def m_vec_index(I, r, idx):
    v = r.get()
    if idx >= len(v): raise Panic('index out of bounds')
    return Ref(v, idx)

@model(r'Vec::<\(QualifierKey, SmartString<LazyCompact>\)>::retain::<\{closure@.*\}>')
def m_vec_retain(I, r, clo):
    v = r.get()
    keep = [e for i, e in enumerate(list(v)) if I.ctx.decide(call_closure(I, clo, [Ref(v, i)]))]
    v[:] = keep

@model(r'Vec::<.*>::(is_empty)')
def m_vec_is_empty(I, r): return len(r.get()) == 0

@model(r'Vec::<.*>::len')
def m_vec_len(I, r): return len(r.get())

@model(r'Option::<.*>::map::<.*>')
def m_opt_map(I, o, clo):
    if o.variant == 'None': return o
    if isinstance(clo, tuple) and clo[0] == 'fnitem': return Some(I.call(clo[1], [o.fields[0]]))
    return Some(call_closure(I, clo, [o.fields[0]]))

@model(r'Result::<usize, usize>::ok|Result::<MixedQualifierKey<.*>, parse::ParseError>::ok')
def m_res_ok(I, r): return Some(r.fields[0]) if r.variant == 'Ok' else NONE()

@model(r'<Option<.*> as Try>::branch')
def m_opt_branch(I, o):
    if o.variant == 'Some': return Adt('ControlFlow', 'Continue', [o.fields[0]])
    return Adt('ControlFlow', 'Break', [NONE()])

@model(r'<Option<.*> as FromResidual<Option<Infallible>>>::from_residual')
def m_opt_from_residual(I, r): return NONE()

@model(r'Option::<Result<.*>>::transpose')
def m_transpose(I, o):
    if o.variant == 'None': return Ok(NONE())
    r = o.fields[0]
    return Ok(Some(r.fields[0])) if r.variant == 'Ok' else r

@model(r'<SmartString<LazyCompact> as From<&str>>::from')
def m_ss_from_str(I, s): return StringBuf(S(s))

# ---- Display side
class Fmt:
    def __init__(self): self.out = []

def fmt_args(I, f, a):
    _, tmpl, args = a
    t = list(tmpl.b); i = 0; ai = 0
    while t[i] != 0:
        if t[i] < 0x80:
            n = t[i]; f.out.extend(t[i + 1:i + 1 + n]); i += 1 + n
        elif t[i] == 0xC0:
            kind, v = args[ai]; ai += 1; i += 1
            display(I, f, kind, v)
        else: raise Unsupported('fmt template byte %x' % t[i])
    return Ok([])

def display(I, f, kind, v):
    while isinstance(v, Ref): v = v.get()
    if isinstance(v, tuple) and v and v[0] == 'pe':
        _, s, aset = v
        while isinstance(aset, Ref): aset = aset.get()
        for x in S(s):
            if isinstance(x, int): esc = x >= 0x80 or x in aset
            else: esc = I.ctx.decide(z3.Or([x == a for a in sorted(aset)] + [z3.UGE(x, 0x80)]))
            if esc:
                hx = b'0123456789ABCDEF'
                if isinstance(x, int): f.out.extend([0x25, hx[x >> 4], hx[x & 15]])
                else:
                    def hd(n): return z3.If(z3.ULT(n, 10), n + 0x30, n + 0x37)
                    f.out.extend([0x25, z3.simplify(hd(z3.LShR(x, 4))), z3.simplify(hd(x & 15))])
            else: f.out.append(x)
    elif isinstance(v, int): f.out.append(v)      # char (ascii only in spike)
    else: f.out.extend(S(v))

@model(r'Formatter::write_fmt')
def m_fmt_write_fmt(I, fr, a): return fmt_args(I, fr.get() if isinstance(fr, Ref) else fr, a)

@model(r'utf8_percent_encode')
def m_pe(I, s, aset): return ('pe', s, aset)

@model(r'AsciiSet::add')
def m_aset_add(I, r, b):
    s = r.get() if isinstance(r, Ref) else r
    return frozenset(s | {b})

@model(r'<F as Fn(Mut|Once)?<\(.*\)>>::call(_mut|_once)?')
def m_call_closure(I, f, args):
    clo = f.get() if isinstance(f, Ref) else f
    while isinstance(clo, Ref): clo = clo.get()
    return call_closure(I, clo, list(args))

class ListIt:
    def __init__(self, xs): self.xs, self.i = list(xs), 0
    def next(self, I):
        if self.i >= len(self.xs): return None
        self.i += 1; return self.xs[self.i - 1]
CharsIt.next = lambda self, I: chars_next(I, self)

class FlatMapIt:
    def __init__(self, inner, clo): self.inner, self.clo, self.cur = inner, clo, None
    def next(self, I):
        while True:
            if self.cur is not None:
                v = self.cur.next(I)
                if v is not None: return v
                self.cur = None
            x = self.inner.next(I)
            if x is None: return None
            self.cur = call_closure(I, self.clo, [x])

@model(r'<Chars as Iterator>::flat_map::<ToLowercase, \{closure@.*\}>')
def m_flat_map(I, it, clo): return FlatMapIt(it, clo)

@model(r'char::methods::<impl char>::to_lowercase')
def m_to_lowercase(I, c):
    if isinstance(c, int):
        return ListIt([ord(x) for x in chr(c).lower()])
    if I.ctx.decide(z3.ULT(c, 0x80)):
        if I.ctx.decide(z3.And(z3.UGE(c, 0x41), z3.ULE(c, 0x5A))): return ListIt([c + 0x20])
        return ListIt([c])
    raise Unsupported('non-ascii symbolic to_lowercase (needs unicode table)')

@model(r'<Chars as Iterator>::cmp::<.*>')
def m_iter_cmp(I, a, b):
    xs, ys = [], []
    while True:
        v = a.next(I)
        if v is None: break
        xs.append(v)
    while True:
        v = b.next(I)
        if v is None: break
        ys.append(v)
    return cmp_iter(I, xs, ys)

@model(r'Option::<.*>::filter::<\{closure@.*\}>')
def m_opt_filter(I, o, clo):
    if o.variant == 'None': return o
    keep = call_closure(I, clo, [Ref([o.fields[0]], 0)])
    return o if I.ctx.decide(keep) else NONE()

@model(r'<T as PurlShape>::package_type|<String as PurlShape>::package_type')
def m_pkg_type_dyn(I, r):
    v = r.get()
    for f in I.idx['package_type']:
        if f.params and 'String' in f.params[0][1] and 'Smart' not in f.params[0][1]: return I.call_fn(f, [r])
    raise Unsupported('package_type')


class QIter:
    def __init__(self, v): self.v, self.i = v, 0

@model(r'<std::slice::Iter<\(QualifierKey, SmartString<LazyCompact>\)> as Iterator>::next')
def m_slice_iter_next(I, r):
    it = r.get()
    if it.i >= len(it.v): return NONE()
    it.i += 1
    return Some(Ref(it.v, it.i - 1))

@model(r'core::slice::<impl \[\(QualifierKey, SmartString<LazyCompact>\)\]>::iter')
def m_slice_iter(I, r): return QIter(r.get() if isinstance(r, Ref) else r)

# ---- package types (spike: python unicode tables stand in for tables dumped from real std/unicase)
@model(r'UniCase::<&str>::ascii')
def m_unicase_ascii(I, s): return Adt('UniCase', 'struct', [s])

@model(r'UniCase::<&str>::new')
def m_unicase_new(I, s): return Adt('UniCase', 'struct', [s])

def ascii_lower(I, x):
    if isinstance(x, int): return x + 0x20 if 0x41 <= x <= 0x5A else x
    return z3.If(z3.And(z3.UGE(x, 0x41), z3.ULE(x, 0x5A)), x + 0x20, x)

@model(r'phf::Map::<UniCase<&str>, package_type::PackageType>::get::<UniCase<&str>>')
def m_phf_get(I, mp, key):
    mapv = mp.get()
    q = S(key.get().fields[0])
    entries = mapv.fields[2]
    while isinstance(entries, Ref): entries = entries.get()
    # spike: ASCII queries only (non-ASCII needs the unicase folding table)
    for b in q:
        if not in_range(I.ctx, b, 0, 0x7F): return NONE()
    for i, e in enumerate(entries):
        k = S(e[0].fields[0])
        if len(k) != len(q): continue
        if all(beq(I.ctx, ascii_lower(I, x), y) for x, y in zip(q, k)):
            return Some(Ref(e, 1))
    return NONE()

@model(r'Option::<&package_type::PackageType>::copied')
def m_copied(I, o):
    if o.variant == 'None': return o
    v = o.fields[0].get()
    return Some(Adt(v.ty, v.variant, v.fields))

@model(r'char::methods::<impl char>::is_ascii')
def m_char_is_ascii(I, r):
    c = r.get() if isinstance(r, Ref) else r
    return c < 0x80 if isinstance(c, int) else z3.ULT(c, 0x80)

UPPER = [c for c in range(0x80, 0x110000) if not (0xD800 <= c < 0xE000) and chr(c).isupper() and chr(c).lower() != chr(c)]
LOWERMAP = {c: [ord(x) for x in chr(c).lower()] for c in range(0x80, 0x110000) if not (0xD800 <= c < 0xE000) and chr(c).lower() != chr(c)}

def ranges(cs):
    out = []
    for c in sorted(cs):
        if out and out[-1][1] == c - 1: out[-1][1] = c
        else: out.append([c, c])
    return out
UPPER_R = ranges(UPPER)

@model(r'char::methods::<impl char>::is_uppercase')
def m_is_uppercase(I, c):
    if isinstance(c, int): return (0x41 <= c <= 0x5A) or c in set(UPPER)
    return z3.Or([z3.And(z3.UGE(c, 0x41), z3.ULE(c, 0x5A))] + [z3.And(z3.UGE(c, lo), z3.ULE(c, hi)) for lo, hi in UPPER_R])

# group lowercase mapping by (delta, len)
CLASSES = {}
for c, m in LOWERMAP.items():
    key = ('d', m[0] - c) if len(m) == 1 else ('m', tuple(m))
    CLASSES.setdefault(key, []).append(c)
CLASSES_R = [(k, ranges(v)) for k, v in CLASSES.items()]

_old_tl = None
def m_to_lowercase2(I, c):
    if isinstance(c, int): return ListIt([ord(x) for x in chr(c).lower()])
    if I.ctx.decide(z3.ULT(c, 0x80)):
        if I.ctx.decide(z3.And(z3.UGE(c, 0x41), z3.ULE(c, 0x5A))): return ListIt([c + 0x20])
        return ListIt([c])
    for key, rs in CLASSES_R:
        cond = z3.Or([z3.And(z3.UGE(c, lo), z3.ULE(c, hi)) for lo, hi in rs])
        if I.ctx.decide(cond):
            return ListIt([c + key[1]]) if key[0] == 'd' else ListIt(list(key[1]))
    return ListIt([c])
interp.MODELS[:] = [(p, f) for p, f in interp.MODELS if f.__name__ != 'm_to_lowercase']
interp.MODELS.append((r'char::methods::<impl char>::to_lowercase', m_to_lowercase2))

def encode_char(I, c):
    if isinstance(c, int): return list(chr(c).encode())
    ctx = I.ctx
    def ex(hi, lo): return z3.simplify(z3.Extract(hi, lo, c))
    if ctx.decide(z3.ULT(c, 0x80)): return [ex(7, 0)]
    if ctx.decide(z3.ULT(c, 0x800)): return [z3.simplify(0xC0 | z3.ZeroExt(3, ex(10, 6))), z3.simplify(0x80 | z3.ZeroExt(2, ex(5, 0)))]
    if ctx.decide(z3.ULT(c, 0x10000)): return [z3.simplify(0xE0 | z3.ZeroExt(4, ex(15, 12))), z3.simplify(0x80 | z3.ZeroExt(2, ex(11, 6))), z3.simplify(0x80 | z3.ZeroExt(2, ex(5, 0)))]
    return [z3.simplify(0xF0 | z3.ZeroExt(5, ex(20, 18))), z3.simplify(0x80 | z3.ZeroExt(2, ex(17, 12))), z3.simplify(0x80 | z3.ZeroExt(2, ex(11, 6))), z3.simplify(0x80 | z3.ZeroExt(2, ex(5, 0)))]

@model(r'<FlatMap<Chars, ToLowercase, \{closure@.*\}> as Iterator>::collect::<SmartString<LazyCompact>>')
def m_collect_ss(I, it):
    out = []
    while True:
        c = it.next(I)
        if c is None: break
        out.extend(encode_char(I, c))
    return StringBuf(out)
