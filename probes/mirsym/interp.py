"""Throw-away spike: forking symbolic interpreter over rustc MIR text with API-level std models."""
import re, sys, time
import z3
from mirparse import parse, split_top

# ---------------------------------------------------------------- values
class Adt:
    __slots__ = ('ty', 'variant', 'fields')
    def __init__(self, ty, variant, fields):
        self.ty, self.variant, self.fields = ty, variant, list(fields)
    def __repr__(self):
        return f'{self.ty}::{self.variant}{self.fields}'

class RStr:
    """immutable utf-8 byte string; bytes are ints or z3 BitVec(8)"""
    __slots__ = ('b',)
    def __init__(self, b): self.b = tuple(b)
    def __repr__(self): return 'RStr(%r)' % (''.join(chr(x) if isinstance(x, int) else '?' for x in self.b))

class StringBuf:
    __slots__ = ('b',)
    def __init__(self, b=()): self.b = list(b)
    def __repr__(self): return 'String(%r)' % (''.join(chr(x) if isinstance(x, int) else '?' for x in self.b))

class Ref:
    __slots__ = ('c', 'k')
    def __init__(self, c, k): self.c, self.k = c, k
    def get(self): return self.c[self.k]
    def set(self, v): self.c[self.k] = v

class Cell(list):
    pass

class Panic(Exception): pass
class Unsupported(Exception): pass
class Infeasible(Exception): pass

VARIANTS = {
    'Option': ['None', 'Some'], 'Result': ['Ok', 'Err'], 'ControlFlow': ['Continue', 'Break'],
    'Cow': ['Borrowed', 'Owned'],
}
def base_ty(t):
    t = re.sub(r'::<.*$', '', t)
    t = re.sub(r'<.*$', '', t)
    return t.split('::')[-1]

def load_enums(srcdir='/tmp/mirx/purl/src'):
    import glob
    for p in glob.glob(srcdir + '/**/*.rs', recursive=True):
        txt = re.sub(r'//.*', '', open(p).read())
        for m in re.finditer(r'\benum (\w+)[^{;]*\{', txt):
            i, depth, cur, vs = m.end(), 1, '', []
            while depth:
                ch = txt[i]
                if ch in '{(': depth += 1
                elif ch in '})': depth -= 1
                if depth == 1 and ch == ',' or depth == 0:
                    v = re.sub(r'#\[[^\]]*\]', '', cur).strip()
                    mm = re.match(r'^(\w+)', v)
                    if mm: vs.append(mm.group(1))
                    cur = ''
                elif depth >= 1: cur += ch if depth == 1 else ''
                i += 1
            VARIANTS.setdefault(m.group(1), vs)
load_enums()
VARIANTS['Ordering'] = ['Less', 'Equal', 'Greater']
def disc(adt):
    v = VARIANTS[base_ty(adt.ty)].index(adt.variant)
    return v - 1 if base_ty(adt.ty) == 'Ordering' else v
def Some(v): return Adt('Option', 'Some', [v])
NONE = lambda: Adt('Option', 'None', [])
def Ok(v): return Adt('Result', 'Ok', [v])
def Err(v): return Adt('Result', 'Err', [v])

# ---------------------------------------------------------------- symbolic context
class Ctx:
    def __init__(self, prefix):
        self.prefix = prefix
        self.path = []
        self.solver = z3.Solver()
        self.pending = []
        self.nsolver = 0
    def decide(self, cond):
        """cond: python bool or z3 BoolRef -> python bool (forks)"""
        if isinstance(cond, bool): return cond
        cond = z3.simplify(cond)
        if z3.is_true(cond): return True
        if z3.is_false(cond): return False
        i = len(self.path)
        if i < len(self.prefix):
            v = self.prefix[i]
        else:
            self.solver.push(); self.solver.add(cond); self.nsolver += 1
            t = self.solver.check() == z3.sat
            self.solver.pop()
            self.solver.push(); self.solver.add(z3.Not(cond)); self.nsolver += 1
            f = self.solver.check() == z3.sat
            self.solver.pop()
            if t and f:
                self.pending.append(self.path + [False]); v = True
            elif t: v = True
            elif f: v = False
            else: raise Infeasible()
        self.path.append(v)
        self.solver.add(cond if v else z3.Not(cond))
        return v

def beq(ctx, a, b):
    if isinstance(a, int) and isinstance(b, int): return a == b
    return ctx.decide(a == b)

def in_range(ctx, x, lo, hi):
    if isinstance(x, int): return lo <= x <= hi
    return ctx.decide(z3.And(z3.UGE(x, lo), z3.ULE(x, hi)))

# ---------------------------------------------------------------- interpreter
class Interp:
    def __init__(self, fns, ctx):
        self.fns, self.ctx = fns, ctx
        self.steps = 0

    # ---- places
    def place(self, fr, s):
        """returns (container, key)"""
        s = s.strip()
        if re.fullmatch(r'_\d+', s):
            return fr, s
        if s.startswith('(') and s.endswith(')'):
            inner = s[1:-1]
            if inner.startswith('*'):
                r = self.read(fr, inner[1:])
                return r.c, r.k
            m = re.match(r'^(.*) as (\w+)$', inner)
            if m and not re.search(r'\.\d+: ', inner[len(m.group(1)):]):
                return self.place(fr, m.group(1))  # downcast: same object
            m = re.match(r'^(.*)\.(\d+): (.*)$', inner)
            if m:
                base = self._split_field(inner)
                c, k = self.place(fr, base[0])
                obj = c[k]
                return (obj.fields if isinstance(obj, Adt) else obj), int(base[1])
        raise Unsupported('place ' + s)

    def _split_field(self, inner):
        # inner = BASE.N: TYPE ; BASE may contain parens
        depth = 0
        for i, ch in enumerate(inner):
            if ch == '(': depth += 1
            elif ch == ')': depth -= 1
            elif ch == '.' and depth == 0:
                m = re.match(r'^\.(\d+): ', inner[i:])
                if m: return inner[:i], m.group(1)
        raise Unsupported('field ' + inner)

    def read(self, fr, s):
        c, k = self.place(fr, s)
        return c[k]

    def operand(self, fr, s):
        s = s.strip()
        if s.startswith('no_retag '): s = s[9:]
        if s.startswith('copy ') or s.startswith('move '):
            return self.read(fr, s[5:])
        if s.startswith('const '):
            return self.const(s[6:])
        if re.match(r'^[<\w]', s): return ('fnitem', s)
        raise Unsupported('operand ' + s)

    def const(self, c):
        c = c.strip()
        if c.startswith('"'): return RStr(bytes(eval('b' + c)) if False else eval(c).encode())
        if c.startswith('b"'): return RStr(eval(c))
        if c.startswith("'"): return ord(eval(c))
        m = re.match(r'^(-?\d+)_(u|i)(size|\d+)$', c)
        if m: return int(m.group(1))
        if c in ('true', 'false'): return c == 'true'
        if c.endswith('KnownQualifierKey>::KEY'): return RStr(b'checksum')   # spike hack: only Checksum reaches here
        if c == '()': return []
        if re.fullmatch(r'[A-Z]\w*', c): return Adt(c, 'struct', [])
        if re.fullmatch(r'Option::<.*>::None', c): return NONE()
        if c.startswith('ZeroSized'): return ('closure', c)
        m = re.match(r'^\{(alloc\d+): ', c)
        if m:
            txt = open('/tmp/mirx/purl.mir').read() if not hasattr(self, '_mirtxt') else self._mirtxt
            self._mirtxt = txt
            sm = re.search(r'^%s \(static: (\w+),' % m.group(1), txt, re.M)
            if sm:
                if not hasattr(Interp, '_statics'): Interp._statics = {}
                if sm.group(1) not in Interp._statics:
                    Interp._statics[sm.group(1)] = [self.call_fn(self.fns[sm.group(1)], [])]
                return Ref(Interp._statics[sm.group(1)], 0)
        if c == 'percent_encoding::CONTROLS': return Ref([frozenset(list(range(0x20)) + [0x7F])], 0)
        for cand in (c, c.split('::', 1)[-1]):
            if cand in self.fns and not self.fns[cand].params: return self.call_fn(self.fns[cand], [])
        m = re.match(r'^(.*::promoted\[\d+\])$', c)
        if m:
            name = c.replace('parse::', '') if c not in self.fns else c
            for cand in (c, name):
                if cand in self.fns: return self.call_fn(self.fns[cand], [])
        raise Unsupported('const ' + c)

    def rvalue(self, fr, s):
        s = s.strip()
        if s.startswith(('copy ', 'move ', 'const ', 'no_retag ')):
            depth = 0
            for j, ch in enumerate(s):
                if ch in '([': depth += 1
                elif ch in ')]': depth -= 1
                elif depth == 0 and s.startswith(' as ', j):
                    return self.operand(fr, s[:j])   # casts we meet are unsizing / ptr coercions
            return self.operand(fr, s)
        if s.startswith('&'):
            p = s[5:] if s.startswith('&mut ') else s[1:]
            p = p.strip()
            if p.startswith('(*') and p.endswith(')'):
                v = self.read(fr, p[2:-1])
                if not isinstance(v, Ref): return v      # reborrow of a fat pointer (&str, &[T])
                return Ref(v.c, v.k)
            c, k = self.place(fr, p); return Ref(c, k)
        m = re.match(r'^discriminant\((.*)\)$', s)
        if m: return disc(self.read(fr, m.group(1)))
        if s.startswith('[') and s.endswith(']'):
            return [self.operand(fr, a) for a in split_top(s[1:-1])]
        if s.startswith('(') and s.endswith(')'):
            return [self.operand(fr, a) for a in split_top(s[1:-1])]
        m = re.match(r'^(.*?) \{ (.*) \}$', s)
        if m and not s.startswith('('):
            fields = []
            for part in split_top(m.group(2)):
                fields.append(self.operand(fr, part.split(': ', 1)[1]))
            return Adt(m.group(1), 'struct', fields)
        m = re.match(r'^(Eq|Ne|Lt|Le|Gt|Ge|Add|Sub|Mul|AddWithOverflow|SubWithOverflow|MulWithOverflow|BitAnd|BitOr)\((.*)\)$', s)
        if m:
            a, b = [self.operand(fr, x) for x in split_top(m.group(2))]
            return self.binop(m.group(1), a, b)
        m = re.match(r'^Not\((.*)\)$', s)
        if m:
            v = self.operand(fr, m.group(1))
            return (not v) if isinstance(v, bool) else z3.Not(v)
        # Path::Variant(args) | Path::Variant | TupleStruct(args)
        path, args = s, None
        if s.endswith(')'):
            depth = 0
            for j in range(len(s) - 1, -1, -1):
                if s[j] == ')': depth += 1
                elif s[j] == '(':
                    depth -= 1
                    if depth == 0: break
            path, args = s[:j], s[j + 1:-1]
        segs, depth, cur, j = [], 0, '', 0
        while j < len(path):
            ch = path[j]
            if ch in '<([': depth += 1
            elif ch in '>)]': depth -= 1
            if depth == 0 and path.startswith('::', j):
                segs.append(cur); cur = ''; j += 2; continue
            cur += ch; j += 1
        segs.append(cur)
        segs = [x for x in segs if not x.startswith('<')]
        if segs and re.fullmatch(r'\w+', segs[-1]):
            argv = [self.operand(fr, a) for a in split_top(args)] if args else []
            if len(segs) >= 2 and base_ty(segs[-2]) in VARIANTS and segs[-1] in VARIANTS[base_ty(segs[-2])]:
                return Adt(base_ty(segs[-2]), segs[-1], argv)
            if args is not None:
                return Adt(segs[-1], 'struct', argv)
        raise Unsupported('rvalue ' + s)

    def binop(self, op, a, b):
        conc = isinstance(a, (int, bool)) and isinstance(b, (int, bool))
        if op in ('AddWithOverflow', 'SubWithOverflow', 'MulWithOverflow'):
            if not conc: raise Unsupported('symbolic checked arith')
            r = {'A': a + b, 'S': a - b, 'M': a * b}[op[0]]
            return [r % 2**64, not (0 <= r < 2**64)]
        if conc:
            return {'Eq': a == b, 'Ne': a != b, 'Lt': a < b, 'Le': a <= b, 'Gt': a > b, 'Ge': a >= b,
                    'Add': a + b, 'Sub': a - b, 'Mul': a * b, 'BitAnd': a & b, 'BitOr': a | b}[op]
        import operator
        return {'Eq': a == b, 'Ne': a != b, 'Lt': z3.ULT(a, b), 'Le': z3.ULE(a, b), 'Gt': z3.UGT(a, b), 'Ge': z3.UGE(a, b)}[op]

    # ---- execution
    def call_fn(self, f, args):
        fr = {}
        for (p, _), a in zip(f.params, args): fr[p] = a
        bb = 'bb0'
        while True:
            for st in f.blocks[bb]:
                self.steps += 1
                r = self.step(fr, st)
                if r is None: continue
                if r == 'return': return fr.get('_0')
                bb = r
                break
            else:
                raise Unsupported('fell off block')

    def step(self, fr, st):
        st = st.rstrip(';')
        if st == 'return': return 'return'
        if st.startswith(('StorageLive', 'StorageDead', 'nop')): return None
        if st == 'unreachable': raise Panic('unreachable')
        if st == 'resume': raise Panic('resume')
        m = re.match(r'^goto -> (bb\d+)$', st)
        if m: return m.group(1)
        m = re.match(r'^switchInt\((.*)\) -> \[(.*)\]$', st)
        if m:
            v = self.operand(fr, m.group(1))
            targets = [t.split(': ') for t in split_top(m.group(2))]
            for val, bb in targets:
                if val == 'otherwise': return bb
                if isinstance(v, bool):
                    if int(v) == int(val): return bb
                elif isinstance(v, int):
                    if v == int(val): return bb
                else:  # symbolic bool
                    want = int(val)
                    if self.ctx.decide(v if want else z3.Not(v)): return bb
            raise Unsupported('switch fallthrough')
        m = re.match(r'^assert\((!?)(.*?), "(.*)\) -> \[success: (bb\d+), .*\]$', st)
        if m:
            v = self.operand(fr, m.group(2))
            if m.group(1): v = (not v) if isinstance(v, bool) else z3.Not(v)
            if not self.ctx.decide(v): raise Panic('assert: ' + m.group(3)[:60])
            return m.group(4)
        m = re.match(r'^drop\((.*)\) -> \[return: (bb\d+), .*\]$', st)
        if m: return m.group(2)
        m = re.match(r'^(\S.*?) = (.*\)) -> (?:\[return: (bb\d+), .*\]|(bb\d+))$', st)
        if m and ' -> ' in st:
            dest, callexpr, ret = m.group(1), m.group(2), m.group(3)
            depth = 0
            for j in range(len(callexpr) - 1, -1, -1):
                if callexpr[j] == ')': depth += 1
                elif callexpr[j] == '(':
                    depth -= 1
                    if depth == 0: break
            callee, args = callexpr[:j], callexpr[j + 1:-1]
            argv = [self.operand(fr, a) for a in split_top(args)]
            res = self.call(callee, argv)
            if ret is None: raise Panic('diverging call ' + callee)
            c, k = self.place(fr, dest)
            c[k] = res
            return ret
        m = re.match(r'^(\S.*?) = (.*)$', st)
        if m:
            v = self.rvalue(fr, m.group(2))
            c, k = self.place(fr, m.group(1))
            c[k] = v
            return None
        raise Unsupported('stmt ' + st)

    def call(self, callee, argv):
        key = re.sub(r"<'_>|'_, ?|::<'_>", '', callee)
        for name in (callee, callee.replace('parse::', '')):
            if name in self.fns:
                return self.call_fn(self.fns[name], argv)
        for pat, fn in MODELS:
            if re.fullmatch(pat, key):
                return fn(self, *argv)
        raise Unsupported('callee ' + key)

# ---------------------------------------------------------------- std / crate models (API level)
MODELS = []
def model(pat):
    def deco(f): MODELS.append((pat, f)); return f
    return deco

def strof(v):
    if isinstance(v, Ref): v = v.get()
    if isinstance(v, Adt) and v.ty == 'Cow': v = v.fields[0]
    if isinstance(v, Ref): v = v.get()
    return v

@model(r'core::str::<impl str>::trim_matches::<char>')
def m_trim_matches(I, s, ch):
    b = list(s.b)
    while b and beq(I.ctx, b[0], ch): b.pop(0)
    while b and beq(I.ctx, b[-1], ch): b.pop()
    return RStr(b)

@model(r'SmartString::<LazyCompact>::new')
def m_ss_new(I): return StringBuf()

@model(r'core::str::<impl str>::split::<char>')
def m_split(I, s, ch): return Adt('Split', 'S', [s, ch, False])

@model(r'<std::str::Split<char> as IntoIterator>::into_iter')
def m_id(I, x): return x

@model(r'<std::str::Split<char> as Iterator>::next')
def m_split_next(I, r):
    it = r.get()
    s, ch, done = it.fields
    if done: return NONE()
    for i, x in enumerate(s.b):
        if beq(I.ctx, x, ch):
            it.fields[0] = RStr(s.b[i + 1:])
            return Some(RStr(s.b[:i]))
    it.fields[2] = True
    return Some(s)

def str_eq(I, a, b):
    if len(a.b) != len(b.b): return False
    for x, y in zip(a.b, b.b):
        if not beq(I.ctx, x, y): return False
    return True

@model(r'core::slice::<impl \[&str\]>::contains')
def m_slice_contains(I, sl, item):
    arr = sl.get() if isinstance(sl, Ref) else sl
    it = strof(item)
    for e in arr:
        if str_eq(I, strof(e), it): return True
    return False

@model(r'<Result<.*> as Try>::branch')
def m_try_branch(I, r):
    if r.variant == 'Ok': return Adt('ControlFlow', 'Continue', [r.fields[0]])
    return Adt('ControlFlow', 'Break', [Err(r.fields[0])])

@model(r'<Result<.*> as FromResidual<Result<Infallible, .*>>>::from_residual')
def m_from_residual(I, r): return Err(r.fields[0])

@model(r'<Cow<str> as Deref>::deref')
def m_cow_deref(I, r):
    v = strof(r)
    return RStr(v.b) if isinstance(v, StringBuf) else v

@model(r'core::str::<impl str>::contains::<char>')
def m_contains_char(I, s, ch):
    for x in strof(s).b:
        if beq(I.ctx, x, ch): return True
    return False

@model(r'SmartString::<LazyCompact>::is_empty')
def m_ss_is_empty(I, r): return len(r.get().b) == 0

@model(r'SmartString::<LazyCompact>::push')
def m_ss_push(I, r, ch):
    assert isinstance(ch, int) and ch < 0x80
    r.get().b.append(ch)

@model(r'core::fmt::rt::Argument::new_display::<.*>')
def m_new_display(I, r): return ('display', r)

@model(r'Arguments::new::<\d+, \d+>')
def m_args_new(I, tmpl, args): return ('args', tmpl, args.get() if isinstance(args, Ref) else args)

@model(r'<SmartString<LazyCompact> as std::fmt::Write>::write_fmt')
def m_write_fmt(I, r, a):
    _, tmpl, args = a
    out = r.get().b
    t = list(tmpl.b); i = 0; ai = 0
    while t[i] != 0:
        if t[i] < 0x80:
            n = t[i]; out.extend(t[i + 1:i + 1 + n]); i += 1 + n
        elif t[i] == 0xC0:
            v = strof(args[ai][1]); ai += 1
            out.extend(v.b); i += 1
        else:
            raise Unsupported('fmt template')
    return Ok([])

@model(r'Result::<\(\), std::fmt::Error>::unwrap')
def m_unwrap(I, r):
    if r.variant != 'Ok': raise Panic('unwrap')
    return r.fields[0]

@model(r'percent_decode_str')
def m_pd(I, s): return ('pd', s)

def hexval(I, x):
    if in_range(I.ctx, x, 0x30, 0x39): return x - 0x30
    if in_range(I.ctx, x, 0x41, 0x46): return x - 0x41 + 10
    if in_range(I.ctx, x, 0x61, 0x66): return x - 0x61 + 10
    return None

def utf8_valid(I, b):
    i, n = 0, len(b)
    c = I.ctx
    while i < n:
        x = b[i]
        if in_range(c, x, 0, 0x7F): i += 1; continue
        if in_range(c, x, 0xC2, 0xDF): need, lo, hi = 1, 0x80, 0xBF
        elif in_range(c, x, 0xE0, 0xE0): need, lo, hi = 2, 0xA0, 0xBF
        elif in_range(c, x, 0xED, 0xED): need, lo, hi = 2, 0x80, 0x9F
        elif in_range(c, x, 0xE1, 0xEF): need, lo, hi = 2, 0x80, 0xBF
        elif in_range(c, x, 0xF0, 0xF0): need, lo, hi = 3, 0x90, 0xBF
        elif in_range(c, x, 0xF1, 0xF3): need, lo, hi = 3, 0x80, 0xBF
        elif in_range(c, x, 0xF4, 0xF4): need, lo, hi = 3, 0x80, 0x8F
        else: return False
        if i + need >= n: return False
        if not in_range(c, b[i + 1], lo, hi): return False
        for j in range(2, need + 1):
            if not in_range(c, b[i + j], 0x80, 0xBF): return False
        i += need + 1
    return True

@model(r'PercentDecode::decode_utf8')
def m_decode_utf8(I, pd):
    s = pd[1].b
    out, i, changed = [], 0, False
    while i < len(s):
        x = s[i]
        if i + 2 <= len(s) - 1 and beq(I.ctx, x, 0x25):
            h = hexval(I, s[i + 1])
            l = hexval(I, s[i + 2]) if h is not None else None
            if h is not None and l is not None:
                v = h * 16 + l
                out.append(z3.simplify(v) if not isinstance(v, int) else v)
                i += 3; changed = True; continue
        out.append(x); i += 1
    if not utf8_valid(I, out): return Err('Utf8Error')
    return Ok(Adt('Cow', 'Owned', [StringBuf(out)]) if changed else Adt('Cow', 'Borrowed', [RStr(out)]))

@model(r'Result::<Cow<str>, Utf8Error>::map_err::<parse::ParseError, \{closure@.*\}>')
def m_map_err(I, r, clo):
    if r.variant == 'Ok': return r
    return Err(I.call_fn(I.fns['parse::decode::{closure#0}'], [clo, r.fields[0]]))

# ---------------------------------------------------------------- exploration driver
def explore(fns, harness, maxpaths=10**6):
    stack, npaths, t0, nsolver, steps = [[]], 0, time.time(), 0, 0
    outcomes = {}
    while stack:
        prefix = stack.pop()
        ctx = Ctx(prefix)
        I = Interp(fns, ctx)
        try:
            tag = harness(I)
        except Infeasible:
            tag = 'infeasible'
        except Panic as e:
            tag = 'PANIC ' + str(e)
        stack.extend(ctx.pending)
        npaths += 1; nsolver += ctx.nsolver; steps += I.steps
        outcomes[tag] = outcomes.get(tag, 0) + 1
        if npaths >= maxpaths: break
    return npaths, nsolver, steps, time.time() - t0, outcomes

def main():
    n = int(sys.argv[1])
    fns = parse(open('/tmp/mirx/purl.mir').read())
    viol = []
    def harness(I):
        bs = [z3.BitVec(f'b{i}', 8) for i in range(n)]
        for b in bs: I.ctx.solver.add(z3.ULT(b, 0x80))   # ASCII input hole
        r = I.call_fn(fns['decode_subpath'], [RStr(bs)])
        if r.variant == 'Err': return 'err'
        out = r.fields[0].b
        # property (C07 kernel): no '', '.', '..' segment in result, unless result empty
        segs, cur = [], []
        for x in out:
            if beq(I.ctx, x, 0x2F): segs.append(cur); cur = []
            else: cur.append(x)
        segs.append(cur)
        bad = False
        if out:
            for sg in segs:
                if len(sg) == 0: bad = True
                elif len(sg) <= 2 and all(beq(I.ctx, x, 0x2E) for x in sg): bad = True
        if bad:
            m = I.ctx.solver.model() if I.ctx.solver.check() == z3.sat else None
            viol.append(bytes(m.eval(b, model_completion=True).as_long() for b in bs))
            return 'VIOLATION'
        return 'ok(%d segs)' % len(segs)
    res = explore(fns, harness)
    print('n=%d paths=%d solver_calls=%d mir_steps=%d wall=%.1fs' % ((n,) + res[:4]))
    print(res[4]); print(viol[:5])

if __name__ == '__main__':
    main()
