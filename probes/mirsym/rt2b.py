import sys, z3, time
from interp import *
import interp, models2
from models2 import Fmt, S
from rt import TY_STRING, FROM_STR
FMT = 'format::<impl at src/format.rs:29:1: 31:18>::fmt'

def flat(v, out):
    while isinstance(v, Ref): v = v.get()
    if isinstance(v, Adt):
        out.append(('tag', v.ty, v.variant))
        for f in v.fields: flat(f, out)
    elif isinstance(v, (StringBuf, RStr)): out.append(('str', tuple(v.b)))
    elif isinstance(v, list):
        out.append(('list', len(v)))
        for f in v: flat(f, out)
    else: out.append(('val', v))

def equal(I, a, b):
    fa, fb = [], []
    flat(a, fa); flat(b, fb)
    if len(fa) != len(fb): return False
    for x, y in zip(fa, fb):
        if x[0] != y[0]: return False
        if x[0] == 'str':
            if len(x[1]) != len(y[1]): return False
            for p, q in zip(x[1], y[1]):
                if not beq(I.ctx, p, q): return False
        elif x != y: return False
    return True

def main():
    prefix, n = sys.argv[1], int(sys.argv[2])
    suffix = sys.argv[3] if len(sys.argv) > 3 else ''
    fns = parse(open('/tmp/mirx/purl.mir').read())
    viol = []
    def harness(I):
        I.tysub = TY_STRING
        bs = [z3.BitVec(f'b{i}', 8) for i in range(n)]
        pass
        inp = list(prefix.encode()) + bs + list(suffix.encode())
        if not interp.utf8_valid(I, inp): return "not-utf8 (excluded)"
        r = I.call_fn(fns[FROM_STR], [RStr(inp)])
        if r.variant == 'Err': return 'reject:' + r.fields[0].variant
        p = r.fields[0]
        f = Fmt()
        I.call_fn(fns[FMT], [Ref([p], 0), Ref([f], 0)])
        r2 = I.call_fn(fns[FROM_STR], [RStr(f.out)])
        ok = r2.variant == 'Ok' and equal(I, p, r2.fields[0])
        if not ok:
            assert I.ctx.solver.check() == z3.sat
            m = I.ctx.solver.model()
            viol.append(prefix.encode() + bytes(m.eval(b, model_completion=True).as_long() for b in bs) + suffix.encode())
            return 'VIOLATION'
        return 'roundtrip-ok'
    res = explore(fns, harness)
    print('hole=%d paths=%d solver_calls=%d mir_steps=%d wall=%.1fs' % ((n,) + res[:4]))
    print(res[4]); print(viol[:8])

main()
