"""Throw-away spike: parse rustc -Zunpretty=mir text into a small AST."""
import re

class Fn:
    def __init__(self, name, params, ret):
        self.name, self.params, self.ret = name, params, ret
        self.locals = {}
        self.blocks = {}

def split_top(s, sep=','):
    out, depth, cur, i, instr = [], 0, '', 0, False
    while i < len(s):
        c = s[i]
        if instr:
            cur += c
            if c == '\\':
                cur += s[i + 1]; i += 1
            elif c == '"':
                instr = False
        elif c == '"':
            instr = True; cur += c
        elif c == "'" and i + 2 < len(s) and (s[i + 2] == "'" or (s[i + 1] == '\\')):
            # char literal
            j = s.index("'", i + 2 if s[i + 1] != '\\' else i + 3)
            cur += s[i:j + 1]; i = j
        elif c in '([{<':
            depth += 1; cur += c
        elif c in ')]}':
            depth -= 1; cur += c
        elif c == '>' and i > 0 and s[i - 1] not in '-=':
            depth -= 1; cur += c
        elif c == sep and depth == 0:
            out.append(cur.strip()); cur = ''
        else:
            cur += c
        i += 1
    if cur.strip():
        out.append(cur.strip())
    return out

HDR = re.compile(r'^(fn|const|static) (.*?)(\((.*)\) -> (.*)|: (.*) =) \{$')

def parse(text):
    fns = {}
    lines = text.split('\n')
    i = 0
    while i < len(lines):
        ln = lines[i]
        if (ln.startswith('fn ') or ln.startswith('const ') or ln.startswith('static ')) and ln.endswith('{'):
            m = re.match(r'^fn (.*?)\((.*)\) -> (.*) \{$', ln)
            if m:
                name = m.group(1)
                params = []
                for p in split_top(m.group(2)):
                    pm = re.match(r'^(_\d+): (.*)$', p)
                    params.append((pm.group(1), pm.group(2)))
                f = Fn(name, params, m.group(3))
            else:
                m = re.match(r'^(?:const|static) (.*?): (.*) = \{$', ln)
                f = Fn(m.group(1), [], m.group(2))
            i += 1
            cur = None
            while lines[i] != '}':
                l = lines[i].strip()
                bm = re.match(r'^(bb\d+)( \(cleanup\))?: \{$', l)
                if bm:
                    cur = bm.group(1); f.blocks[cur] = []
                elif l == '}':
                    cur = None
                elif cur is not None and l:
                    f.blocks[cur].append(l)
                else:
                    lm = re.match(r'^let (?:mut )?(_\d+): (.*);$', l)
                    if lm:
                        f.locals[lm.group(1)] = lm.group(2)
                i += 1
            # several fns can share a name (e.g. const fn printed twice); keep the first
            fns.setdefault(f.name, f)
        i += 1
    return fns

if __name__ == '__main__':
    import sys
    fns = parse(open(sys.argv[1]).read())
    print(len(fns))
    f = fns['decode_subpath']
    for b, st in f.blocks.items():
        print(b, st)
