import sys, z3, time
from interp import *
import interp, models2
from models2 import S, decode_char, m_to_lowercase2
from rt3 import TY_PT, FROM_STR
sys.setrecursionlimit(10000)

def main():
    ty = sys.argv[1]
    fns = parse(open('/tmp/mirx/purl.mir').read())
    viol = []
    def harness(I):
        I.tysub = TY_PT
        b0, b1 = z3.BitVec('b0', 8), z3.BitVec('b1', 8)
        I.ctx.solver.add(z3.UGE(b0, 0xC2), z3.ULE(b0, 0xDF), z3.UGE(b1, 0x80), z3.ULE(b1, 0xBF))
        inp = list(('pkg:%s/ns/' % ty).encode()) + [b0, b1]
        r = I.call_fn(fns[FROM_STR], [RStr(inp)])
        if r.variant == 'Err': return 'reject'
        name = S(r.fields[0].fields[1].fields[1])
        got, i = [], 0
        while i < len(name):
            c, w = decode_char(I, name, i); got.append(c); i += w
        c, _ = decode_char(I, [b0, b1], 0)
        it = m_to_lowercase2(I, c)
        exp = it.xs
        ok = len(exp) == len(got)
        if ok:
            for x, y in zip(exp, got):
                if not I.ctx.decide(x == y): ok = False; break
        if not ok:
            assert I.ctx.solver.check() == z3.sat
            m = I.ctx.solver.model()
            viol.append(bytes([m.eval(b0, model_completion=True).as_long(), m.eval(b1, model_completion=True).as_long()]).decode())
            return 'VIOLATION'
        return 'ok'
    res = explore(fns, harness)
    print('type=%s paths=%d solver_calls=%d mir_steps=%d wall=%.1fs' % ((ty,) + res[:4]))
    print(res[4]); print(viol[:12])
main()
