#!/bin/bash
# usage: run.sh <timeout_s> harness...
T=$1; shift
for h in "$@"; do
  ( ulimit -v 30000000; cd /tmp/kprobe; /usr/bin/time -f "WALL %e s MAXRSS %M KB" timeout $T cargo kani -Z stubbing --harness $h --output-format old --target-dir /tmp/kprobe/t_$h > logs/$h.log 2>&1; echo "EXIT $?" >> logs/$h.log ) &
done
wait
