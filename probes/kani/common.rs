use purl::{GenericPurl, GenericPurlBuilder, PurlParts, Purl, PackageType, Qualifiers};
use std::str::FromStr;
use std::fmt::Write;

pub fn memrchr_naive(x: u8, text: &[u8]) -> Option<usize> {
    let mut i = text.len();
    while i > 0 {
        i -= 1;
        if text[i] == x { return Some(i); }
    }
    None
}
pub fn memchr_naive(x: u8, text: &[u8]) -> Option<usize> {
    let mut i = 0;
    while i < text.len() {
        if text[i] == x { return Some(i); }
        i += 1;
    }
    None
}

pub struct Sink { pub buf: [u8; 48], pub len: usize }
impl Write for Sink {
    fn write_str(&mut self, s: &str) -> std::fmt::Result {
        let b = s.as_bytes();
        let mut i = 0;
        while i < b.len() {
            if self.len >= 48 { return Err(std::fmt::Error); }
            self.buf[self.len] = b[i];
            self.len += 1;
            i += 1;
        }
        Ok(())
    }
}

#[kani::proof]
#[kani::unwind(13)]
#[kani::stub(core::slice::memchr::memrchr, memrchr_naive)]
#[kani::stub(core::slice::memchr::memchr, memchr_naive)]
fn a1_parse_one_ascii() {
    let mut buf = *b"pkg:t/n";
    let b: u8 = kani::any();
    kani::assume(b < 0x80);
    buf[6] = b;
    let s = unsafe { std::str::from_utf8_unchecked(&buf) };
    let r = GenericPurl::<String>::from_str(s);
    if let Ok(p) = r {
        assert!(!p.name().is_empty());
    }
}

#[kani::proof]
#[kani::unwind(13)]
fn a3_nuget_2byte() {
    let c: u16 = kani::any();
    kani::assume(c >= 0x80 && c < 0x800);
    let b = [0xC0u8 | (c >> 6) as u8, 0x80u8 | (c & 0x3F) as u8];
    let name = unsafe { std::str::from_utf8_unchecked(&b) };
    let ch = char::from_u32(c as u32).unwrap();
    let p = Purl::builder(PackageType::NuGet, name).build().unwrap();
    let mut it = ch.to_lowercase();
    let mut got = p.name().chars();
    let mut n = 0;
    while n < 4 {
        let (a, b) = (it.next(), got.next());
        assert!(a == b);
        if a.is_none() { break; }
        n += 1;
    }
}

#[kani::proof]
#[kani::unwind(13)]
fn a4_fmt_sink_one_ascii() {
    let b: u8 = kani::any();
    kani::assume(b < 0x80);
    let arr = [b];
    let name = unsafe { std::str::from_utf8_unchecked(&arr) };
    let p = GenericPurlBuilder::new(String::from("t"), name).build().unwrap();
    let mut sink = Sink { buf: [0; 48], len: 0 };
    write!(sink, "{}", p).unwrap();
    assert!(sink.len == 7 || sink.len == 9);
}

#[kani::proof]
#[kani::unwind(13)]
fn a5_fmt_tostring_one_ascii() {
    let b: u8 = kani::any();
    kani::assume(b < 0x80);
    let arr = [b];
    let name = unsafe { std::str::from_utf8_unchecked(&arr) };
    let p = GenericPurlBuilder::new(String::from("t"), name).build().unwrap();
    let s = p.to_string();
    assert!(s.len() == 7 || s.len() == 9);
}

#[kani::proof]
#[kani::unwind(8)]
fn a6_pkgtype3() {
    let a: [u8; 3] = kani::any();
    kani::assume(a[0] < 0x80 && a[1] < 0x80 && a[2] < 0x80);
    let s = unsafe { std::str::from_utf8_unchecked(&a) };
    if let Ok(t) = PackageType::from_str(s) {
        assert!(s.eq_ignore_ascii_case(t.name()));
    }
}
