#![allow(unused)]
#[cfg(kani)] mod extra;
#[cfg(kani)] mod common;
#[cfg(kani)]
pub mod h {
    use purl::parse_hooks::*;
    use purl::{GenericPurl, GenericPurlBuilder, PurlParts, Purl, PackageType, Qualifiers};
    use std::str::FromStr;

    pub fn memrchr_naive(x: u8, text: &[u8]) -> Option<usize> {
        let mut i = text.len();
        while i > 0 {
            i -= 1;
            if text[i] == x { return Some(i); }
        }
        None
    }
    pub fn memchr_naive(x: u8, text: &[u8]) -> Option<usize> {
        let mut i = 0;
        while i < text.len() {
            if text[i] == x { return Some(i); }
            i += 1;
        }
        None
    }

    fn ascii<const N: usize>() -> [u8; N] {
        let a: [u8; N] = kani::any();
        let mut i = 0;
        while i < N { kani::assume(a[i] < 0x80); i += 1; }
        a
    }

    #[kani::proof]
    #[kani::unwind(6)]
    #[kani::stub(core::slice::memchr::memrchr, memrchr_naive)]
    #[kani::stub(core::slice::memchr::memchr, memchr_naive)]
    fn h1_decode3() {
        let a = ascii::<3>();
        let s = unsafe { std::str::from_utf8_unchecked(&a) };
        let r = h_decode(s);
        if let Ok(d) = r { assert!(d.len() <= 3); }
    }

    #[kani::proof]
    #[kani::unwind(7)]
    #[kani::stub(core::slice::memchr::memrchr, memrchr_naive)]
    #[kani::stub(core::slice::memchr::memchr, memchr_naive)]
    fn h2_subpath4() {
        let a = ascii::<4>();
        let s = unsafe { std::str::from_utf8_unchecked(&a) };
        let r = h_decode_subpath(s);
        if let Ok(d) = r {
            assert!(!d.starts_with('/'));
            assert!(d.as_str() != "..");
        }
    }

    #[kani::proof]
    #[kani::unwind(13)]
    #[kani::stub(core::slice::memchr::memrchr, memrchr_naive)]
    #[kani::stub(core::slice::memchr::memchr, memchr_naive)]
    fn h3_parse_sub3() {
        let mut buf = *b"pkg:t/n#aaa";
        let a = ascii::<3>();
        buf[8..].copy_from_slice(&a);
        let s = unsafe { std::str::from_utf8_unchecked(&buf) };
        let r = GenericPurl::<String>::from_str(s);
        if let Ok(p) = r {
            assert!(p.subpath() != Some(".."));
        }
    }

    #[kani::proof]
    #[kani::unwind(13)]
    #[kani::stub(core::slice::memchr::memrchr, memrchr_naive)]
    #[kani::stub(core::slice::memchr::memchr, memchr_naive)]
    fn h4_fmt_name1() {
        let c: char = kani::any();
        let mut b = [0u8; 4];
        let name: &str = c.encode_utf8(&mut b);
        let p = GenericPurlBuilder::new(String::from("t"), name).build().unwrap();
        let s = p.to_string();
        assert!(s.is_ascii());
    }

    #[kani::proof]
    #[kani::unwind(13)]
    fn h5_quals2() {
        let a = ascii::<2>();
        let k1 = unsafe { std::str::from_utf8_unchecked(&a[0..1]) };
        let k2 = unsafe { std::str::from_utf8_unchecked(&a[1..2]) };
        let mut q = Qualifiers::default();
        let r1 = q.insert(k1, "x").is_ok();
        let r2 = q.insert(k2, "y").is_ok();
        if r1 && r2 {
            assert!(q.len() == 1 || q.len() == 2);
            if q.len() == 2 {
                let mut it = q.iter();
                let (ka, _) = it.next().unwrap();
                let (kb, _) = it.next().unwrap();
                assert!(ka.as_str() < kb.as_str());
            }
        }
    }

    #[kani::proof]
    #[kani::unwind(13)]
    fn h6_nuget1() {
        let c: char = kani::any();
        let mut b = [0u8; 4];
        let name: &str = c.encode_utf8(&mut b);
        let p = Purl::builder(PackageType::NuGet, name).build().unwrap();
        let mut it = c.to_lowercase();
        let mut got = p.name().chars();
        loop {
            match (it.next(), got.next()) {
                (None, None) => break,
                (a, b) => assert!(a == b),
            }
        }
    }

    #[kani::proof]
    #[kani::unwind(8)]
    fn h7_pkgtype() {
        let a = ascii::<4>();
        let s = unsafe { std::str::from_utf8_unchecked(&a) };
        if let Ok(t) = PackageType::from_str(s) {
            assert!(s.eq_ignore_ascii_case(t.name()));
        }
    }

    #[kani::proof]
    #[kani::unwind(13)]
    #[kani::stub(core::slice::memchr::memrchr, memrchr_naive)]
    #[kani::stub(core::slice::memchr::memchr, memchr_naive)]
    fn h8_checksum_concrete() {
        let r = GenericPurl::<String>::from_str("pkg:t/n?checksum=a:00");
        assert!(r.is_ok());
    }
}
