use purl::parse_hooks::*;
use super::h::*;
use std::str::Utf8Error;

pub fn from_utf8_simple(v: &[u8]) -> Result<&str, Utf8Error> {
    let mut i = 0;
    let n = v.len();
    let mut ok = true;
    while i < n {
        let b = v[i];
        if b < 0x80 { i += 1; continue; }
        let (need, lo, hi) = if b >= 0xC2 && b <= 0xDF { (1, 0x80, 0xBF) }
            else if b == 0xE0 { (2, 0xA0, 0xBF) }
            else if (b >= 0xE1 && b <= 0xEC) || b == 0xEE || b == 0xEF { (2, 0x80, 0xBF) }
            else if b == 0xED { (2, 0x80, 0x9F) }
            else if b == 0xF0 { (3, 0x90, 0xBF) }
            else if b >= 0xF1 && b <= 0xF3 { (3, 0x80, 0xBF) }
            else if b == 0xF4 { (3, 0x80, 0x8F) }
            else { ok = false; break; };
        if i + need >= n { ok = false; break; }
        let b1 = v[i + 1];
        if b1 < lo || b1 > hi { ok = false; break; }
        let mut j = 2;
        while j <= need {
            let bj = v[i + j];
            if bj < 0x80 || bj > 0xBF { ok = false; break; }
            j += 1;
        }
        if !ok { break; }
        i += need + 1;
    }
    if ok {
        Ok(unsafe { std::str::from_utf8_unchecked(v) })
    } else {
        Err(unsafe { std::mem::transmute::<(usize, u8, u8), Utf8Error>((0usize, 1u8, 1u8)) })
    }
}

fn ascii<const N: usize>() -> [u8; N] {
    let a: [u8; N] = kani::any();
    let mut i = 0;
    while i < N { kani::assume(a[i] < 0x80); i += 1; }
    a
}

#[kani::proof]
#[kani::unwind(6)]
#[kani::stub(core::slice::memchr::memrchr, memrchr_naive)]
#[kani::stub(core::slice::memchr::memchr, memchr_naive)]
#[kani::stub(core::str::from_utf8, from_utf8_simple)]
fn e1_decode3_u8stub() {
    let a = ascii::<3>();
    let s = unsafe { std::str::from_utf8_unchecked(&a) };
    let r = h_decode(s);
    if let Ok(d) = r { assert!(d.len() <= 3); }
}

#[kani::proof]
#[kani::unwind(6)]
fn e2_decode3_noescape() {
    let a = ascii::<3>();
    kani::assume(a[0] != b'%' && a[1] != b'%' && a[2] != b'%');
    let s = unsafe { std::str::from_utf8_unchecked(&a) };
    let r = h_decode(s);
    assert!(r.is_ok());
}

#[kani::proof]
#[kani::unwind(6)]
fn e3_from_utf8_3() {
    let a: [u8; 3] = kani::any();
    let r = std::str::from_utf8(&a);
    if let Ok(d) = r { assert!(d.len() == 3); }
}

#[kani::proof]
#[kani::unwind(4)]
fn q1_insert1() {
    use purl::Qualifiers;
    let a: u8 = kani::any();
    kani::assume(a < 0x80);
    let arr = [a];
    let k1 = unsafe { std::str::from_utf8_unchecked(&arr) };
    let mut q = Qualifiers::default();
    let r1 = q.insert(k1, "x").is_ok();
    if r1 { assert!(q.len() == 1); }
}
#[kani::proof]
#[kani::unwind(4)]
fn q0_insert_concrete() {
    use purl::Qualifiers;
    let mut q = Qualifiers::default();
    let r1 = q.insert("a", "x").is_ok();
    assert!(r1 && q.len() == 1);
}

#[kani::proof]
#[kani::unwind(6)]
fn e4_decode2_noescape() {
    let a = ascii::<2>();
    kani::assume(a[0] != b'%' && a[1] != b'%');
    let s = unsafe { std::str::from_utf8_unchecked(&a) };
    let r = h_decode(s);
    assert!(r.is_ok());
}
#[kani::proof]
#[kani::unwind(6)]
fn e5_decode1() {
    let a = ascii::<1>();
    let s = unsafe { std::str::from_utf8_unchecked(&a) };
    let r = h_decode(s);
    assert!(r.is_ok());
}
