"""Type and path expressions as printed by rustc's MIR pretty-printer.

Types are parsed into tuples:
  ('adt', name, args)        path type; `name` is the last path segment, args a tuple of types
  ('ref', mut, T)            &T / &mut T / *const T / *mut T
  ('tup', (T, ...))          tuples, () is ('tup', ())
  ('slice', T) ('arr', T, n)
  ('proj', Self, Trait, name) <Self as Trait>::name  (associated type)
  ('closure', span)          {closure@file:l:c: l:c}
  ('fn', text)               fn pointer / fn item types
  ('dyn', text) ('never',)
Lifetimes are dropped everywhere.  Module paths are dropped (last segment kept), which is
unambiguous for the crate under analysis (checked when the crate info is loaded).
"""
import re

_TOK = re.compile(r"""
    \s+ |
    (?P<closure>\{closure@[^{}]*\}) |
    (?P<lt>'[A-Za-z_]\w*) |
    (?P<arrow>->) |
    (?P<cc>::) |
    (?P<id>[A-Za-z_]\w*) |
    (?P<num>\d+) |
    (?P<p>[<>()\[\],;&*:=+!?{}\#])
""", re.X)


def tokenize(s):
    out, i = [], 0
    while i < len(s):
        m = _TOK.match(s, i)
        if not m:
            raise ValueError('type token at %r in %r' % (s[i:i + 20], s))
        i = m.end()
        if m.lastgroup is None:
            continue
        out.append((m.lastgroup, m.group(m.lastgroup), m.start()))
    return out


class P:
    def __init__(self, s):
        self.s = s
        self.t = tokenize(s)
        self.i = 0

    def peek(self, k=0):
        j = self.i + k
        return self.t[j] if j < len(self.t) else ('eof', '', len(self.s))

    def next(self):
        t = self.peek()
        self.i += 1
        return t

    def eat(self, v):
        if self.peek()[1] == v:
            self.i += 1
            return True
        return False

    def expect(self, v):
        if not self.eat(v):
            raise ValueError('expected %r at token %d of %r' % (v, self.i, self.s))

    # ---- generic argument list after '<' was consumed; returns tuple of types (lifetimes dropped)
    def generic_args(self):
        args = []
        while not self.eat('>'):
            if self.peek()[0] == 'lt':
                self.next()
            elif self.peek()[0] == 'num':
                args.append(('const', int(self.next()[1])))
            elif self.peek()[0] == 'id' and self.peek(1)[1] == '=' :
                # associated type binding Name = T
                self.next(); self.next(); self.ty()
            else:
                args.append(self.ty())
            self.eat(',')
        return tuple(args)

    def ty(self):
        k, v = self.peek()[:2]
        if v == '&' or v == '*':
            self.next()
            mut = False
            if self.peek()[0] == 'lt':
                self.next()
            if self.peek()[:2] == ('id', 'mut'):
                self.next(); mut = True
            elif self.peek()[:2] == ('id', 'const'):
                self.next()
            return ('ref', mut, self.ty())
        if v == '(':
            self.next()
            items = []
            while not self.eat(')'):
                items.append(self.ty())
                self.eat(',')
            return ('tup', tuple(items))
        if v == '[':
            self.next()
            t = self.ty()
            if self.eat(';'):
                n = self.next()[1]
                self.expect(']')
                return ('arr', t, n)
            self.expect(']')
            return ('slice', t)
        if v == '!':
            self.next()
            return ('never',)
        if k == 'closure':
            self.next()
            return ('closure', v[len('{closure@'):-1])
        if v == '<':
            # <T as Trait>::Name   or <T>::Name
            self.next()
            st = self.ty()
            tr = None
            if self.eat('as'):
                tr = self.ty()
            self.expect('>')
            t = ('qself', st, tr)
            while self.eat('::'):
                name = self.next()[1]
                args = ()
                if self.peek()[1] == '<':
                    self.next(); args = self.generic_args()
                t = ('proj', t[1] if t[0] == 'qself' else t, t[2] if t[0] == 'qself' else None, name)
            return t
        if k == 'id' and v in ('dyn', 'impl'):
            # dyn Trait + 'a ... : swallow until a top-level ',' '>' ')' ']'
            start = self.i
            depth = 0
            while self.i < len(self.t):
                tv = self.t[self.i][1]
                if tv in '<([':
                    depth += 1
                elif tv in '>)]':
                    if depth == 0:
                        break
                    depth -= 1
                elif tv in (',', ';') and depth == 0:
                    break
                self.i += 1
            return ('dyn', ' '.join(x[1] for x in self.t[start:self.i]))
        if k == 'id' and v in ('fn', 'unsafe', 'extern'):
            start = self.i
            while self.peek()[1] != '(':
                if self.peek()[0] == 'eof':
                    raise ValueError('fn type without parameter list in %r' % self.s)
                self.next()
            self.ty()  # params as tuple
            if self.eat('->'):
                self.ty()
            item = None
            if self.peek()[1] == '{':
                # fn item type: fn(A) -> B {path}
                depth = 0
                j = self.i
                while True:
                    tv = self.t[self.i][1]
                    self.i += 1
                    if tv == '{':
                        depth += 1
                    elif tv == '}':
                        depth -= 1
                        if depth == 0:
                            break
                item = self.s[self.t[j + 1][2]:self.t[self.i - 1][2]].strip()
            return ('fn', item)
        if k == 'id':
            return self.path_type()
        raise ValueError('type at token %r in %r' % (self.peek(), self.s))

    def path_type(self):
        name, args = None, ()
        while True:
            k, v = self.next()[:2]
            if k != 'id':
                raise ValueError('path segment %r in %r' % (v, self.s))
            name = v
            if self.peek()[1] == '<' :
                self.next(); args = self.generic_args()
            elif self.peek()[1] == '::' and self.peek(1)[1] == '<':
                self.next(); self.next(); args = self.generic_args()
            if self.peek()[1] == '::' and self.peek(1)[0] == 'id':
                self.next()
                continue
            break
        return ('adt', name, args)


_ty_cache = {}


def parse_type(s):
    s = s.strip()
    t = _ty_cache.get(s)
    if t is None:
        p = P(s)
        t = p.ty()
        if p.i != len(p.t):
            raise ValueError('trailing tokens in type %r' % s)
        _ty_cache[s] = t
    return t


def show(t):
    k = t[0]
    if k == 'adt':
        return t[1] + ('<' + ', '.join(show(a) for a in t[2]) + '>' if t[2] else '')
    if k == 'ref':
        return ('&mut ' if t[1] else '&') + show(t[2])
    if k == 'tup':
        return '(' + ', '.join(show(a) for a in t[1]) + (',' if len(t[1]) == 1 else '') + ')'
    if k == 'slice':
        return '[' + show(t[1]) + ']'
    if k == 'arr':
        return '[%s; %s]' % (show(t[1]), t[2])
    if k == 'proj':
        return '<%s as %s>::%s' % (show(t[1]), show(t[2]) if t[2] else '_', t[3])
    if k == 'closure':
        return '{closure@%s}' % t[1]
    if k == 'const':
        return str(t[1])
    if k == 'fn':
        return 'fn{%s}' % t[1]
    if k == 'dyn':
        return t[1]
    if k == 'never':
        return '!'
    return repr(t)


def subst(t, env):
    """replace generic parameters (('adt', name, ()) with name in env) by env[name]"""
    if not env:
        return t
    k = t[0]
    if k == 'adt':
        if not t[2] and t[1] in env:
            return env[t[1]]
        if not t[2]:
            return t
        return ('adt', t[1], tuple(subst(a, env) for a in t[2]))
    if k == 'ref':
        return ('ref', t[1], subst(t[2], env))
    if k == 'tup':
        return ('tup', tuple(subst(a, env) for a in t[1]))
    if k == 'slice':
        return ('slice', subst(t[1], env))
    if k == 'arr':
        return ('arr', subst(t[1], env), t[2])
    if k == 'proj':
        return ('proj', subst(t[1], env), subst(t[2], env) if t[2] else None, t[3])
    return t


def unify(pat, t, params, env):
    """match pattern type `pat` (with generic parameter names in `params`) against concrete `t`;
    extends env, returns True/False"""
    if pat[0] == 'adt' and not pat[2] and pat[1] in params:
        if pat[1] in env:
            return env[pat[1]] == t
        env[pat[1]] = t
        return True
    if pat[0] != t[0]:
        return False
    k = pat[0]
    if k == 'adt':
        if pat[1] != t[1] or len(pat[2]) != len(t[2]):
            return False
        return all(unify(a, b, params, env) for a, b in zip(pat[2], t[2]))
    if k == 'ref':
        return pat[1] == t[1] and unify(pat[2], t[2], params, env)
    if k == 'tup':
        return len(pat[1]) == len(t[1]) and all(unify(a, b, params, env) for a, b in zip(pat[1], t[1]))
    if k in ('slice',):
        return unify(pat[1], t[1], params, env)
    if k == 'arr':
        return unify(pat[1], t[1], params, env)
    return pat == t


def head(t):
    """short name used to key models"""
    k = t[0]
    if k == 'adt':
        return t[1]
    if k == 'ref':
        return '&' + head(t[2])
    if k == 'tup':
        return 'tuple'
    if k in ('slice', 'arr'):
        return 'slice'
    if k == 'closure':
        return 'closure'
    if k == 'fn':
        return 'fn'
    if k == 'dyn':
        return 'dyn'
    return k


# ------------------------------------------------------------------------------------------
# callee / path expressions


class Callee:
    """A parsed function path.
    kind 'trait':  <self_ty as trait>::method::<margs>      (trait is a type ('adt', Trait, args))
    kind 'inherent': Type::<targs>::method::<margs>  or  mod::<impl X>::method  (self_ty = the type)
    kind 'free':   path::to::function::<margs>
    """
    __slots__ = ('kind', 'self_ty', 'trait', 'method', 'margs', 'text', 'modpath')

    def __repr__(self):
        if self.kind == 'trait':
            return '<%s as %s>::%s' % (show(self.self_ty), show(self.trait), self.method)
        if self.kind == 'inherent':
            return '%s::%s' % (show(self.self_ty), self.method)
        return '::'.join(self.modpath + [self.method])

    def key(self):
        return (self.kind, self.self_ty, self.trait, self.method, self.margs, tuple(self.modpath))


_PRIMS = {'str', 'char', 'bool', 'u8', 'u16', 'u32', 'u64', 'usize', 'i8', 'i16', 'i32', 'i64', 'isize', 'u128', 'i128'}


def parse_callee(text):
    p = P(text)
    c = Callee()
    c.text = text
    c.modpath = []
    c.trait = None
    c.self_ty = None
    c.margs = ()
    if p.peek()[1] == '<':
        p.next()
        st = p.ty()
        tr = None
        if p.eat('as'):
            tr = p.ty()
        p.expect('>')
        p.expect('::')
        c.kind = 'trait' if tr is not None else 'inherent'
        c.self_ty, c.trait = st, tr
        c.method = p.next()[1]
        if p.peek()[1] == '::' and p.peek(1)[1] == '<':
            p.next(); p.next(); c.margs = p.generic_args()
        if p.i != len(p.t):
            # <T as Trait>::method::{closure#0} etc. are never called by name
            raise ValueError('trailing tokens in callee %r' % text)
        return c
    segs = []  # (name, args, impl_ty)
    while True:
        k, v = p.peek()[:2]
        if v == '<':
            # `<impl X>` segment
            p.next()
            if p.peek()[:2] == ('id', 'impl'):
                p.next()
                it = p.ty()
                p.expect('>')
                segs.append((None, (), it))
            else:
                raise ValueError('callee segment in %r' % text)
        elif k == 'id':
            p.next()
            args = ()
            if p.peek()[1] == '::' and p.peek(1)[1] == '<' and not (p.peek(2)[:2] == ('id', 'impl')):
                p.next(); p.next(); args = p.generic_args()
            segs.append((v, args, None))
        elif v == '{':
            raise ValueError('closure path %r' % text)
        else:
            raise ValueError('callee %r' % text)
        if p.eat('::'):
            continue
        break
    if p.i != len(p.t):
        raise ValueError('trailing tokens in callee %r' % text)
    name, margs, _ = segs[-1]
    c.method, c.margs = name, margs
    if len(segs) >= 2:
        pname, pargs, pimpl = segs[-2]
        if pimpl is not None:
            c.kind, c.self_ty = 'inherent', pimpl
            return c
        if pname[0].isupper() or pname in _PRIMS and len(segs) == 2:
            c.kind, c.self_ty = 'inherent', ('adt', pname, pargs)
            c.modpath = [s[0] for s in segs[:-2] if s[0]]
            return c
    c.kind = 'free'
    c.modpath = [s[0] for s in segs[:-1] if s[0]]
    return c


def subst_callee(c, env, norm=None):
    if not env and norm is None:
        return c
    d = Callee()
    d.kind, d.method, d.text, d.modpath = c.kind, c.method, c.text, c.modpath
    f = (lambda t: norm(subst(t, env))) if norm else (lambda t: subst(t, env))
    d.self_ty = f(c.self_ty) if c.self_ty is not None else None
    d.trait = f(c.trait) if c.trait is not None else None
    d.margs = tuple(f(a) if a[0] != 'const' else a for a in c.margs)
    return d
