"""Value domain of the interpreter."""
import z3


class Panic(Exception):
    """the interpreted program panics (an observable outcome, not an engine error)"""
    def __init__(self, msg, where=None):
        Exception.__init__(self, msg)
        self.msg, self.where = msg, where


class Unsupported(Exception):
    """the engine cannot execute this; the run is inconclusive"""


class Infeasible(Exception):
    pass


class Adt:
    __slots__ = ('ty', 'variant', 'fields')

    def __init__(self, ty, variant, fields):
        self.ty, self.variant, self.fields = ty, variant, fields

    def __repr__(self):
        if self.variant is None:
            return '%s%r' % (self.ty, self.fields)
        return '%s::%s%r' % (self.ty, self.variant, self.fields if self.fields else '')


def Tup(*xs):
    return Adt('tuple', None, list(xs))


def UNIT():
    return Adt('tuple', None, [])


class RStr:
    """&str (or &[u8]): immutable sequence of bytes; each byte an int or a z3 BitVec(8)"""
    __slots__ = ('b',)

    def __init__(self, b):
        self.b = tuple(b)

    def __repr__(self):
        return 'str(%s)' % show_bytes(self.b)


class TrackList(list):
    """the bytes of a string buffer, remembering the largest length the buffer ever had (`hw`): a small string that once grew beyond its
    inline capacity stays on the heap when it is shortened in place (smartstring's lazily compacting mode)"""
    __slots__ = ('hw',)

    def __init__(self, it=()):
        list.__init__(self, it)
        self.hw = len(self)

    def _up(self):
        if len(self) > self.hw:
            self.hw = len(self)

    def append(self, x):
        list.append(self, x); self._up()

    def extend(self, xs):
        list.extend(self, xs); self._up()

    def insert(self, i, x):
        list.insert(self, i, x); self._up()

    def __iadd__(self, xs):
        list.extend(self, xs); self._up()
        return self

    def __setitem__(self, k, v):
        list.__setitem__(self, k, v); self._up()


class StringBuf:
    """String / SmartString / SmallString: growable byte buffer with identity"""
    __slots__ = ('_b', 'kind')

    def __init__(self, b=(), kind='String'):
        self._b = TrackList(b)
        self.kind = kind

    @property
    def b(self):
        return self._b

    @b.setter
    def b(self, v):
        # new content for the same buffer: the high-water mark is kept
        hw = self._b.hw
        self._b = TrackList(v)
        self._b.hw = max(hw, len(self._b))

    @property
    def high_water(self):
        return self._b.hw

    def __repr__(self):
        return 'String(%s)' % show_bytes(self.b)


class VecVal:
    """Vec<T>, arrays and slices"""
    __slots__ = ('items',)

    def __init__(self, items=()):
        self.items = list(items)

    def __repr__(self):
        return 'Vec%r' % (self.items,)


class MapVal:
    """HashMap<K, V> with string keys: insertion ordered list of [key, value]"""
    __slots__ = ('entries',)

    def __init__(self, entries=()):
        self.entries = [list(e) for e in entries]

    def __repr__(self):
        return 'Map%r' % (self.entries,)


class Ref:
    """reference / pointer to a place: container[key]"""
    __slots__ = ('c', 'k')

    def __init__(self, c, k):
        self.c, self.k = c, k

    def get(self):
        return self.c[self.k]

    def set(self, v):
        self.c[self.k] = v

    def __repr__(self):
        try:
            return '&%r' % (self.c[self.k],)
        except Exception:
            return '&<dangling>'


class Closure:
    __slots__ = ('span', 'caps', 'env')

    def __init__(self, span, caps, env):
        self.span, self.caps, self.env = span, caps, env

    @property
    def fields(self):
        return self.caps

    def __repr__(self):
        return 'closure@%s' % self.span


class FnItem:
    __slots__ = ('text', 'env')

    def __init__(self, text, env):
        self.text, self.env = text, env

    def __repr__(self):
        return 'fn{%s}' % self.text


class Opaque:
    """a value the engine only passes around (iterators, formatter, hasher, ...)"""
    def __repr__(self):
        return '<%s>' % type(self).__name__


def is_sym(x):
    return isinstance(x, z3.ExprRef)


def show_bytes(b):
    out = []
    for x in b:
        if isinstance(x, int):
            out.append(chr(x) if 0x20 <= x < 0x7f else '\\x%02x' % x)
        else:
            out.append('?')
    return '"' + ''.join(out) + '"'


def deref_all(v):
    while isinstance(v, Ref):
        v = v.get()
    return v


def clone_val(v):
    """value copy: aggregates are duplicated, references stay shared"""
    if isinstance(v, Adt):
        return Adt(v.ty, v.variant, [clone_val(f) for f in v.fields])
    if isinstance(v, StringBuf):
        c = StringBuf(v.b, v.kind)          # a bit copy (MIR `copy` / move): the representation, hence the high-water mark, is kept
        c.b.hw = v.b.hw
        return c
    if isinstance(v, VecVal):
        return VecVal([clone_val(x) for x in v.items])
    if isinstance(v, MapVal):
        return MapVal([[clone_val(k), clone_val(x)] for k, x in v.entries])
    if isinstance(v, Closure):
        return Closure(v.span, [clone_val(x) for x in v.caps], v.env)
    return v


NONE_ = lambda: Adt('Option', 'None', [])
def Some(v): return Adt('Option', 'Some', [v])
def Ok(v): return Adt('Result', 'Ok', [v])
def Err(v): return Adt('Result', 'Err', [v])
def Ordering(n): return Adt('Ordering', ('Less', 'Equal', 'Greater')[n + 1], [])
