"""Parser for `rustc -Zunpretty=mir` text plus the bits of crate source the dump refers to by span.

Statements and terminators are parsed once into tuples (a small AST); the interpreter walks those.
"""
import os
import re
from .types import parse_type, parse_callee, show

# ------------------------------------------------------------------------------------------
# generic splitting helpers (strings, chars, brackets aware)


def split_top(s, sep=','):
    out, depth, cur, i, n = [], 0, [], 0, len(s)
    while i < n:
        c = s[i]
        if c == '"' or (c == 'b' and i + 1 < n and s[i + 1] == '"' and (i == 0 or not (s[i - 1].isalnum() or s[i - 1] == '_'))):
            j = i + (2 if c == 'b' else 1)
            while s[j] != '"':
                j += 2 if s[j] == '\\' else 1
            cur.append(s[i:j + 1]); i = j + 1
            continue
        if c == "'":
            # char literal or lifetime
            m = re.match(r"'(\\u\{[0-9a-fA-F]+\}|\\.|[^'\\])'", s[i:])
            if m:
                cur.append(m.group(0)); i += m.end()
                continue
        if c in '([{':
            depth += 1
        elif c in ')]}':
            depth -= 1
        elif c == '<':
            # generic bracket unless it is a comparison (never in MIR operands)
            depth += 1
        elif c == '>' and i > 0 and s[i - 1] not in '-=':
            depth -= 1
        elif c == sep and depth == 0:
            out.append(''.join(cur).strip()); cur = []; i += 1
            continue
        cur.append(c); i += 1
    last = ''.join(cur).strip()
    if last:
        out.append(last)
    return out


def match_paren(s, i):
    """s[i] is an opening bracket; return index of its partner (string/char aware)"""
    depth, n = 0, len(s)
    while i < n:
        c = s[i]
        if c == '"':
            i += 1
            while s[i] != '"':
                i += 2 if s[i] == '\\' else 1
        elif c == "'":
            m = re.match(r"'(\\u\{[0-9a-fA-F]+\}|\\.|[^'\\])'", s[i:])
            if m:
                i += m.end() - 1
        elif c in '([{':
            depth += 1
        elif c in ')]}':
            depth -= 1
            if depth == 0:
                return i
        i += 1
    raise ValueError('unbalanced ' + s)


def rust_str(lit):
    """decode a Rust string / byte-string / char literal body (as printed in MIR) into bytes"""
    out = bytearray()
    i, n = 0, len(lit)
    while i < n:
        c = lit[i]
        if c == '\\':
            d = lit[i + 1]
            if d == 'x':
                out.append(int(lit[i + 2:i + 4], 16)); i += 4
            elif d == 'u':
                j = lit.index('}', i)
                out += chr(int(lit[i + 3:j], 16)).encode(); i = j + 1
            elif d == 'n':
                out.append(10); i += 2
            elif d == 'r':
                out.append(13); i += 2
            elif d == 't':
                out.append(9); i += 2
            elif d == '0':
                out.append(0); i += 2
            elif d in '\\\'"':
                out.append(ord(d)); i += 2
            else:
                raise ValueError('escape ' + lit)
        else:
            out += c.encode(); i += 1
    return bytes(out)


# ------------------------------------------------------------------------------------------
# places, operands, rvalues


def parse_place(s):
    """-> ('local', n) | ('deref', P) | ('field', P, n) | ('downcast', P, variant) | ('index', P, local) | ('cindex', P, n) | ('tls', name)"""
    s = s.strip()
    if s.startswith('/*tls*/ '):
        return ('tls', s[8:].strip())
    m = re.fullmatch(r'_(\d+)', s)
    if m:
        return ('local', int(m.group(1)))
    if s.startswith('(') and match_paren(s, 0) == len(s) - 1:
        inner = s[1:-1].strip()
        if inner.startswith('*'):
            return ('deref', parse_place(inner[1:]))
        # BASE.N: TYPE   or   BASE as Variant
        base_end = None
        if inner.startswith('('):
            base_end = match_paren(inner, 0) + 1
        else:
            m = re.match(r'_\d+', inner)
            base_end = m.end()
        base, rest = inner[:base_end], inner[base_end:]
        # base may be followed by index projections
        while rest.startswith('['):
            j = match_paren(rest, 0)
            base += rest[:j + 1]; rest = rest[j + 1:]
        m = re.match(r'^\.(\d+): ', rest)
        if m:
            return ('field', parse_place(base), int(m.group(1)))
        m = re.match(r'^ as (\w+)$', rest)
        if m:
            return ('downcast', parse_place(base), m.group(1))
        raise ValueError('place ' + s)
    if s.startswith('*'):
        return ('deref', parse_place(s[1:]))
    m = re.match(r'^(.*)\[(.*)\]$', s)
    if m:
        idx = m.group(2)
        mm = re.fullmatch(r'_(\d+)', idx)
        if mm:
            return ('index', parse_place(m.group(1)), int(mm.group(1)))
        mm = re.fullmatch(r'(\d+) of (\d+)', idx)
        if mm:
            return ('cindex', parse_place(m.group(1)), int(mm.group(1)))
    raise ValueError('place ' + s)


INT_RE = re.compile(r'^(-?\d+)_(u8|u16|u32|u64|u128|usize|i8|i16|i32|i64|i128|isize)$')


def parse_const(c):
    c = c.strip()
    if c.startswith('"'):
        return ('str', rust_str(c[1:-1]))
    if c.startswith('b"'):
        return ('bytes', rust_str(c[2:-1]))
    if c.startswith("b'"):
        return ('int', rust_str(c[2:-1])[0], 'u8')
    if c.startswith("'"):
        return ('char', ord(rust_str(c[1:-1]).decode()))
    m = INT_RE.match(c)
    if m:
        return ('int', int(m.group(1)), m.group(2))
    if c in ('true', 'false'):
        return ('bool', c == 'true')
    if c == '()':
        return ('unit',)
    m = re.match(r'^\{(alloc\d+): (.*)\}$', c)
    if m:
        return ('alloc', m.group(1), m.group(2))
    if c.startswith('ZeroSized: '):
        return ('zst', c[len('ZeroSized: '):])
    return ('path', c)


def parse_operand(s):
    s = s.strip()
    if s.startswith('no_retag '):
        s = s[9:]
    if s.startswith('copy '):
        return ('copy', parse_place(s[5:]))
    if s.startswith('move '):
        return ('move', parse_place(s[5:]))
    if s.startswith('const '):
        return ('const', parse_const(s[6:]))
    # bare path (function item / unit struct used as operand)
    return ('const', parse_const(s))


BINOPS = ('Eq', 'Ne', 'Lt', 'Le', 'Gt', 'Ge', 'Add', 'Sub', 'Mul', 'Div', 'Rem', 'BitAnd', 'BitOr', 'BitXor',
          'Shl', 'Shr', 'AddWithOverflow', 'SubWithOverflow', 'MulWithOverflow', 'AddUnchecked', 'SubUnchecked',
          'MulUnchecked', 'Offset', 'Cmp')
UNOPS = ('Not', 'Neg', 'PtrMetadata')


def find_top(s, needle):
    """index of `needle` at bracket depth 0 (string aware), or -1"""
    depth, i, n = 0, 0, len(s)
    while i < n:
        c = s[i]
        if c == '"':
            i += 1
            while s[i] != '"':
                i += 2 if s[i] == '\\' else 1
        elif c == "'":
            m = re.match(r"'(\\u\{[0-9a-fA-F]+\}|\\.|[^'\\])'", s[i:])
            if m:
                i += m.end() - 1
        elif c in '([{':
            depth += 1
        elif c in ')]}':
            depth -= 1
        elif depth == 0 and s.startswith(needle, i):
            return i
        i += 1
    return -1


def parse_rvalue(s):
    s = s.strip()
    if s.startswith(('copy ', 'move ', 'const ', 'no_retag ')):
        # a cast is `OPERAND as TYPE (Kind)` / `(Kind(..))`; a bare ` as ` also occurs inside `const <Q as Trait>::NAME`
        m = re.match(r'^(.*) as (.*?) \((\w+)(?:\(.*\))?\)$', s)
        if m and find_top(s, ' as ') >= 0:
            return ('cast', parse_operand(m.group(1)), m.group(2), m.group(3))
        return ('use', parse_operand(s))
    if s.startswith('&raw '):
        m = re.match(r'^&raw (const|mut) (.*)$', s)
        return ('ref', m.group(1) == 'mut', parse_place(m.group(2)))
    if s.startswith('&'):
        mut = s.startswith('&mut ')
        p = s[5:] if mut else s[1:]
        for pre in ('fake shallow ', 'fake '):
            if p.startswith(pre):
                p = p[len(pre):]
        return ('ref', mut, parse_place(p))
    m = re.match(r'^discriminant\((.*)\)$', s)
    if m:
        return ('discr', parse_place(m.group(1)))
    m = re.match(r'^(\w+)\((.*)\)$', s)
    if m and m.group(1) in BINOPS:
        a, b = split_top(m.group(2))
        return ('binop', m.group(1), parse_operand(a), parse_operand(b))
    if m and m.group(1) in UNOPS:
        return ('unop', m.group(1), parse_operand(m.group(2)))
    m = re.match(r'^(Len|CopyForDeref)\((.*)\)$', s)
    if m:
        return ('len' if m.group(1) == 'Len' else 'useplace', parse_place(m.group(2)))
    if s.startswith('[') and s.endswith(']'):
        inner = s[1:-1]
        j = find_top(inner, '; ')
        if j >= 0 and not split_top(inner)[1:]:
            return ('repeat', parse_operand(inner[:j]), inner[j + 2:])
        return ('array', [parse_operand(a) for a in split_top(inner)])
    if s.startswith('(') and s.endswith(')') and match_paren(s, 0) == len(s) - 1:
        return ('tuple', [parse_operand(a) for a in split_top(s[1:-1])])
    if s.startswith('{closure@') or s.startswith('{coroutine@'):
        j = match_paren(s, 0)
        span = s[len('{closure@'):j]
        rest = s[j + 1:].strip()
        caps = []
        if rest.startswith('{'):
            for part in split_top(rest[1:-1].strip()):
                caps.append(parse_operand(part.split(': ', 1)[1]))
        return ('closure', span, caps)
    # struct literal  Path { f: op, .. }
    if s.endswith('}'):
        j = find_top(s, ' { ')
        if j >= 0:
            fields = []
            body = s[j + 3:-1].strip()
            for part in split_top(body):
                fields.append(parse_operand(part.split(': ', 1)[1]))
            return ('aggregate', s[:j].strip(), None, fields)
        if s.endswith(' {}'):
            return ('aggregate', s[:-3].strip(), None, [])
    # Path::Variant(args) | Path(args) | Path::Variant | UnitStruct
    if s.endswith(')'):
        depth = 0
        for j in range(len(s) - 1, -1, -1):
            if s[j] == ')':
                depth += 1
            elif s[j] == '(':
                depth -= 1
                if depth == 0:
                    break
        path, args = s[:j], [parse_operand(a) for a in split_top(s[j + 1:-1])]
        return ('ctor', path.strip(), args)
    return ('ctor', s, None)


def parse_stmt(st):
    """statement or terminator -> tuple"""
    st = st.rstrip(';').strip()
    if st == 'return':
        return ('return',)
    if st.startswith(('StorageLive(', 'StorageDead(', 'nop', 'FakeRead(', 'PlaceMention(', 'AscribeUserType(', 'Retag(',
                      'Coverage', 'ConstEvalCounter', 'BackwardIncompatibleDropHint')):
        return None
    if st.startswith('Deinit('):
        return None
    if st == 'unreachable':
        return ('unreachable',)
    if st == 'resume' or st.startswith('terminate'):
        return ('resume',)
    m = re.match(r'^goto -> bb(\d+)$', st)
    if m:
        return ('goto', int(m.group(1)))
    m = re.match(r'^switchInt\((.*)\) -> \[(.*)\]$', st)
    if m:
        targets, other = [], None
        for t in split_top(m.group(2)):
            val, bb = t.split(': ')
            if val == 'otherwise':
                other = int(bb[2:])
            else:
                targets.append((int(val), int(bb[2:])))
        return ('switch', parse_operand(m.group(1)), targets, other)
    m = re.match(r'^assert\((.*)\) -> \[success: bb(\d+), .*\]$', st)
    if m:
        parts = split_top(m.group(1))
        cond = parts[0]
        neg = cond.startswith('!')
        if neg:
            cond = cond[1:]
        return ('assert', neg, parse_operand(cond), parts[1] if len(parts) > 1 else '', int(m.group(2)))
    m = re.match(r'^drop\((.*)\) -> \[return: bb(\d+), .*\]$', st)
    if m:
        return ('drop', parse_place(m.group(1)), int(m.group(2)))
    # call terminator:  DEST = CALLEE(ARGS) -> [return: bbN, unwind ...] | -> unwind continue | -> bbN
    tm = re.match(r'^(.*) -> (\[return: bb\d+, unwind[^\]]*\]|bb\d+|unwind [a-z() ]+)$', st)
    if tm and ' = ' in tm.group(1):
        lhs, callexpr = tm.group(1).split(' = ', 1)
        tail = tm.group(2)
        m = re.match(r'^\[return: bb(\d+), .*\]$', tail)
        ret = int(m.group(1)) if m else None
        if m is None:
            m2 = re.match(r'^bb(\d+)$', tail)
            ret = int(m2.group(1)) if m2 else None
        callexpr = callexpr.strip()
        # split callee / args at the last top-level paren group
        assert callexpr.endswith(')'), st
        depth = 0
        for k in range(len(callexpr) - 1, -1, -1):
            if callexpr[k] == ')':
                depth += 1
            elif callexpr[k] == '(':
                depth -= 1
                if depth == 0:
                    break
        callee_txt = callexpr[:k].strip()
        args = [parse_operand(a) for a in split_top(callexpr[k + 1:-1])]
        if callee_txt.startswith(('move ', 'copy ')):
            callee = ('dyn', parse_operand(callee_txt))
        else:
            callee = ('static', callee_txt)
        return ('call', parse_place(lhs), callee, args, ret)
    m = re.match(r'^discriminant\((.*)\) = (\d+)$', st)
    if m:
        return ('setdiscr', parse_place(m.group(1)), int(m.group(2)))
    j = find_top(st, ' = ')
    if j >= 0:
        return ('assign', parse_place(st[:j]), parse_rvalue(st[j + 3:]))
    raise ValueError('stmt ' + st)


# ------------------------------------------------------------------------------------------


class Fn:
    def __init__(self, name, params, ret, kind='fn'):
        self.name, self.params, self.ret, self.kind = name, params, ret, kind
        self.locals = {}
        self.blocks = {}        # bb -> list of parsed statements (terminator last)
        self.cleanup = set()
        self.nlocals = 0
        self.const_value = None  # for one-line consts
        self.impl_span = None
        self.short = None
        self.line = 0

    def __repr__(self):
        return 'Fn(%s)' % self.name


IMPL_RE = re.compile(r'<impl at ([^>]*?):(\d+):(\d+): (\d+):(\d+)>')


def parse_mir(text):
    """returns (fns: list[Fn], allocs: dict name -> ('static', name) | bytes)"""
    fns, allocs = [], {}
    lines = text.split('\n')
    i, n = 0, len(lines)
    while i < n:
        ln = lines[i]
        m = re.match(r'^(alloc\d+) \((?:static: (\w+), )?size: (\d+), align: (\d+)\)', ln)
        if m:
            if m.group(2):
                allocs[m.group(1)] = ('static', m.group(2))
            i += 1
            continue
        one = None
        if ln.startswith('const ') and ln.endswith(';') and ' = const ' in ln:
            left, val = ln[6:-1].split(' = const ', 1)
            depth = 0
            for k, ch in enumerate(left):
                if ch == '<':
                    depth += 1
                elif ch == '>' and left[k - 1] != '-':
                    depth -= 1
                elif depth == 0 and left.startswith(': ', k):
                    one = (left[:k], left[k + 2:], val)
                    break
        if one:
            f = Fn(one[0], [], one[1], 'const')
            f.const_value = parse_const(one[2])
            f.line = i + 1
            im = IMPL_RE.search(f.name)
            if im:
                f.impl_span = (im.group(1), int(im.group(2)), int(im.group(3)), int(im.group(4)), int(im.group(5)))
            fns.append(f)
            i += 1
            continue
        if (ln.startswith('fn ') or ln.startswith('const ') or ln.startswith('static ')) and ln.endswith('{'):
            m = re.match(r'^fn (.*)$', ln)
            if m:
                body = m.group(1)
                # name up to the parameter list: find '(' that starts params = first top-level '(' after the name
                # names may contain '<impl at ...>' and '{closure#0}'
                k = 0
                depth = 0
                while True:
                    c = body[k]
                    if c == '<':
                        depth += 1
                    elif c == '>' and body[k - 1] != '-':
                        depth -= 1
                    elif c == '(' and depth == 0:
                        break
                    k += 1
                name = body[:k]
                pe = match_paren(body, k)
                params = []
                for p in split_top(body[k + 1:pe]):
                    pm = re.match(r'^_(\d+): (.*)$', p)
                    params.append((int(pm.group(1)), pm.group(2)))
                rm = re.match(r'^ -> (.*) \{$', body[pe + 1:])
                f = Fn(name, params, rm.group(1), 'fn')
            else:
                m = re.match(r'^(const|static)(?: mut)? (.*?): (.*) = \{$', ln)
                f = Fn(m.group(2), [], m.group(3), m.group(1))
            f.line = i + 1
            i += 1
            cur = None
            while lines[i] != '}':
                l = lines[i].strip()
                bm = re.match(r'^bb(\d+)( \(cleanup\))?: \{$', l)
                if bm:
                    cur = int(bm.group(1)); f.blocks[cur] = []
                    if bm.group(2):
                        f.cleanup.add(cur)
                elif l == '}':
                    cur = None
                elif cur is not None and l:
                    if cur in f.cleanup:
                        pass
                    else:
                        # a statement can span several lines only inside string literals with newlines: not produced by rustc
                        ps = parse_stmt(l)
                        if ps is not None:
                            f.blocks[cur].append(ps)
                else:
                    lm = re.match(r'^let (?:mut )?_(\d+): (.*);$', l)
                    if lm:
                        f.locals[int(lm.group(1))] = lm.group(2)
                i += 1
            f.nlocals = max([0] + list(f.locals) + [p for p, _ in f.params]) + 1
            im = IMPL_RE.search(f.name)
            if im:
                f.impl_span = (im.group(1), int(im.group(2)), int(im.group(3)), int(im.group(4)), int(im.group(5)))
            fns.append(f)
        i += 1
    return fns, allocs


# ------------------------------------------------------------------------------------------
# crate source information: enums, aliases, impl headers, method generics, associated types


def eval_cfg(expr, features):
    expr = expr.strip()
    m = re.fullmatch(r'feature\s*=\s*"([^"]*)"', expr)
    if m:
        return m.group(1) in features
    m = re.fullmatch(r'(not|all|any)\((.*)\)', expr, re.S)
    if m:
        parts = [eval_cfg(p, features) for p in split_top(m.group(2))]
        if m.group(1) == 'not':
            return not parts[0]
        return all(parts) if m.group(1) == 'all' else any(parts)
    return False   # test, docsrs, kani, ...


def strip_comments(src):
    """blank out comments and string contents, keeping offsets"""
    out = list(src)
    i, n = 0, len(src)
    while i < n:
        if src.startswith('//', i):
            j = src.find('\n', i)
            j = n if j < 0 else j
            for k in range(i, j):
                out[k] = ' '
            i = j
        elif src.startswith('/*', i):
            j = src.find('*/', i) + 2
            for k in range(i, j):
                if out[k] != '\n':
                    out[k] = ' '
            i = j
        elif src[i] == '"':
            j = i + 1
            while src[j] != '"':
                j += 2 if src[j] == '\\' else 1
            i = j + 1
        elif src[i] == "'":
            m = re.match(r"'(\\u\{[0-9a-fA-F]+\}|\\.|[^'\\])'", src[i:])
            i += m.end() if m else 1
        else:
            i += 1
    return ''.join(out)


def generic_names(gtext):
    """'<'a, T: Bound, const N: usize>' -> (['T'], {'T': 'Bound'})  (type parameters only)"""
    names = []
    for part in split_top(gtext):
        part = part.strip()
        if not part or part.startswith("'"):
            continue
        if part.startswith('const '):        # const generic: bound positionally like a type parameter (its argument is ('const', value))
            part = part[6:]
        names.append(re.match(r'\w+', part).group(0))
    return names


class Impl:
    def __init__(self):
        self.file = self.span = None
        self.generics = []
        self.trait = None     # type or None
        self.self_ty = None   # type
        self.assoc = {}       # name -> type
        self.consts = {}
        self.methods = {}     # name -> Fn (first) ; all in self.method_list
        self.method_generics = {}  # name -> [names]
        self.macro = False

    def __repr__(self):
        return 'Impl(%s for %s @%s)' % (show(self.trait) if self.trait else '-', show(self.self_ty) if self.self_ty else '?', self.span)


class CrateInfo:
    def __init__(self, srcdir, features):
        self.srcdir, self.features = srcdir, set(features)
        self.enums = {}      # name -> [variant names]
        self.structs = {}    # name -> [field names] (named structs)
        self.aliases = {}    # name -> type text
        self.src = {}
        self.clean = {}
        self.fn_generics = {}   # (file, fn name, line) ...
        for root, _, files in os.walk(srcdir):
            for fn in files:
                if fn.endswith('.rs'):
                    p = os.path.join(root, fn)
                    txt = open(p).read()
                    self.src[p] = txt
                    self.clean[p] = strip_comments(txt)
        for p, txt in self.clean.items():
            self._scan_items(p, txt)

    def _cfg_ok(self, txt, pos):
        """evaluate #[cfg(..)] attributes directly preceding the item starting at pos"""
        j = pos
        ok = True
        while True:
            k = txt.rfind('\n', 0, j)
            k2 = txt.rfind('\n', 0, k) if k > 0 else -1
            prev = txt[k2 + 1:k].strip() if k > 0 else ''
            if prev.startswith('#['):
                m = re.match(r'#\[cfg\((.*)\)\]$', prev)
                if m and not eval_cfg(m.group(1), self.features):
                    ok = False
                j = k
                continue
            if prev == '' and k > 0 and False:
                j = k
                continue
            break
        return ok

    def _scan_items(self, path, txt):
        for m in re.finditer(r'^[ \t]*(?:pub(?:\([^)]*\))? )?enum (\w+)[^{;]*\{', txt, re.M):
            j = match_paren(txt, m.end() - 1)
            body = txt[m.end():j]
            vs = []
            for part in split_top(body):
                part = re.sub(r'#\[[^\]]*\]', '', part).strip()
                mm = re.match(r'^(\w+)', part)
                if mm:
                    vs.append(mm.group(1))
            if self._cfg_ok(txt, m.start()):
                self.enums[m.group(1)] = vs
        for m in re.finditer(r'^[ \t]*(?:pub(?:\([^)]*\))? )?struct (\w+)[^{;(]*\{', txt, re.M):
            j = match_paren(txt, m.end() - 1)
            body = txt[m.end():j]
            fs = []
            for part in split_top(body):
                part = re.sub(r'#\[[^\]]*\]', '', part).strip()
                mm = re.match(r'^(?:pub(?:\([^)]*\))? )?(\w+)\s*:', part)
                if mm:
                    fs.append(mm.group(1))
            self.structs[m.group(1)] = fs
        for m in re.finditer(r'^(?:pub(?:\([^)]*\))? )?type (\w+)(?:<[^=]*>)? = ([^;]*);', txt, re.M):
            if self._cfg_ok(txt, m.start()):
                self.aliases[m.group(1)] = m.group(2).strip()

    def _in_impl_or_trait(self, txt, pos):
        # crude: an associated `type X = ..;` is indented
        ls = txt.rfind('\n', 0, pos) + 1
        return txt[ls:pos + 1].startswith((' ', '\t')) and txt[ls:pos].strip() == '' and (pos - ls) >= 4

    def find_file(self, rel):
        for p in self.src:
            if p.endswith('/' + rel) or p.endswith(rel):
                return p
        raise KeyError(rel)

    def offset(self, path, line, col):
        txt = self.src[path]
        off = 0
        for _ in range(line - 1):
            off = txt.index('\n', off) + 1
        # col counts characters
        return off + col - 1

    def span_text(self, span):
        f, l1, c1, l2, c2 = span
        p = self.find_file(f)
        return p, self.offset(p, l1, c1), self.offset(p, l2, c2)

    def impl_from_span(self, span):
        p, a, b = self.span_text(span)
        txt = self.clean[p]
        head = txt[a:b]
        imp = Impl()
        imp.file, imp.span = p, span
        if head.lstrip().startswith('impl'):
            # extend to the opening brace to see the where clause / full header
            brace = txt.index('{', a)
            full = txt[a:brace]
            full = re.split(r'\bwhere\b', full)[0].strip()
            rest = full[4:].lstrip()
            if rest.startswith('<'):
                j = self._match_angle(rest, 0)
                imp.generics = generic_names(rest[1:j])
                rest = rest[j + 1:].strip()
            if '$' in rest:
                imp.macro = True
                imp.header_text = rest
                end = match_paren(txt, brace)
                imp.body = (brace, end)
                return imp
            parts = re.split(r'\s+for\s+', rest)
            if len(parts) == 2:
                imp.trait = self.ptype(parts[0].lstrip('!'))
                imp.self_ty = self.ptype(parts[1])
            else:
                imp.self_ty = self.ptype(rest)
            end = match_paren(txt, brace)
            imp.body = (brace, end)
            body = txt[brace:end]
            for m in re.finditer(r'\btype (\w+) = ([^;]*);', body):
                imp.assoc[m.group(1)] = self.ptype(m.group(2))
            for m in re.finditer(r'\bfn (\w+)\s*(<)?', body):
                if m.group(2):
                    s0 = m.end() - 1
                    j = self._match_angle(body, s0)
                    imp.method_generics[m.group(1)] = generic_names(body[s0 + 1:j])
                else:
                    imp.method_generics[m.group(1)] = []
            return imp
        # derive macro: `head` is the derive path (Clone, thiserror::Error, ...)
        tr = head.strip().split('::')[-1]
        m = re.compile(r'^[ \t]*(?:pub(?:\([^)]*\))? )?(?:struct|enum) (\w+)\s*(<[^{;(]*>)?', re.M).search(txt, b)
        name = m.group(1)
        gens = generic_names(m.group(2)[1:-1]) if m.group(2) else []
        lts = bool(m.group(2))
        imp.generics = gens
        imp.self_ty = ('adt', name, tuple(('adt', g, ()) for g in gens))
        imp.trait = ('adt', tr, ())
        imp.derive = tr
        imp.body = None
        return imp

    @staticmethod
    def _match_angle(s, i):
        depth = 0
        while True:
            c = s[i]
            if c == '<':
                depth += 1
            elif c == '>' and s[i - 1] != '-':
                depth -= 1
                if depth == 0:
                    return i
            i += 1

    def ptype(self, text):
        text = text.strip()
        text = re.sub(r'^::', '', text)
        return self.expand_alias(parse_type(text))

    def expand_alias(self, t):
        k = t[0]
        if k == 'adt':
            if t[1] in self.aliases and not t[2]:
                return self.ptype(self.aliases[t[1]])
            if t[1] == 'Self':
                return t
            return ('adt', t[1], tuple(self.expand_alias(a) if a[0] != 'const' else a for a in t[2]))
        if k == 'ref':
            return ('ref', t[1], self.expand_alias(t[2]))
        if k == 'tup':
            return ('tup', tuple(self.expand_alias(a) for a in t[1]))
        if k in ('slice',):
            return ('slice', self.expand_alias(t[1]))
        if k == 'arr':
            return ('arr', self.expand_alias(t[1]), t[2])
        if k == 'proj':
            return ('proj', self.expand_alias(t[1]), self.expand_alias(t[2]) if t[2] else None, t[3])
        return t
