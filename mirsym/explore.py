"""Exploration driver: all feasible paths of a harness, work shared over processes, leaf obligations
decided by the solver, witnesses and counterexamples handed to the native oracle."""
import hashlib
import json
import multiprocessing as mp
import os
import random
import subprocess
import sys
import time
import traceback
import z3

from .ctx import Ctx, Cut, STATS
from .interp import Interp
from .vals import Panic, Unsupported, Infeasible, RStr, is_sym
from . import models


class Discard(Exception):
    """harness precondition not met on this path (an `assume`)"""


class SymStr:
    """a string made of concrete / symbolic bytes inside a native request or expectation"""
    __slots__ = ('b',)

    def __init__(self, b):
        self.b = list(b)


class SymVal:
    """a scalar (bool / int) term inside a request or expectation"""
    __slots__ = ('v',)

    def __init__(self, v):
        self.v = v


def concretize(x, model):
    if isinstance(x, SymStr):
        out = bytearray()
        for b in x.b:
            if isinstance(b, int):
                out.append(b)
            else:
                out.append(model.eval(b, model_completion=True).as_long())
        return out.hex()
    if isinstance(x, SymVal):
        v = x.v
        if is_sym(v):
            r = model.eval(v, model_completion=True)
            return z3.is_true(r) if z3.is_bool(r) else r.as_long()
        return v
    if isinstance(x, dict):
        return {k: concretize(v, model) for k, v in x.items()}
    if isinstance(x, (list, tuple)):
        return [concretize(v, model) for v in x]
    return x


def subset_match(expect, got, path=''):
    """every key / element present in `expect` must be equal in `got`; returns list of differences"""
    diffs = []
    if isinstance(expect, dict):
        if not isinstance(got, dict):
            return ['%s: expected object, got %r' % (path, got)]
        for k, v in expect.items():
            if k not in got:
                diffs.append('%s.%s: missing (expected %r)' % (path, k, v))
            else:
                diffs += subset_match(v, got[k], path + '.' + k)
        return diffs
    if isinstance(expect, list):
        if not isinstance(got, list) or len(got) != len(expect):
            return ['%s: expected %r, got %r' % (path, expect, got)]
        for i, (a, b) in enumerate(zip(expect, got)):
            diffs += subset_match(a, b, '%s[%d]' % (path, i))
        return diffs
    if expect != got:
        return ['%s: expected %r, got %r' % (path, expect, got)]
    return diffs


class Leaf:
    """what a harness sees on one path"""

    def __init__(self, I, ctx, query):
        self.I, self.ctx, self.query = I, ctx, query
        self.violations = []      # (label, detail, model-derived concrete case)
        self.replay = None        # (request, expectation) with symbolic parts
        self.nchecks = 0
        self.tags = []

    # ---- inputs
    def sym_bytes(self, name, n):
        return [self.ctx.byte('%s%d' % (name, i)) for i in range(n)]

    def restrict(self, bs, alphabet):
        """every byte of `bs` ranges over the given byte values only (narrows the input space without forking)"""
        from .ctx import mask_constraint
        m = 0
        for x in alphabet:
            m |= 1 << x
        for b in bs:
            self.ctx.add(mask_constraint(b, m))

    def assume(self, cond):
        if not self.ctx.decide(cond):
            raise Discard()

    def assume_utf8(self, b):
        if not models.utf8_valid(self.I, b):
            raise Discard()

    def constrain(self, cond):
        """add a constraint on inputs without forking; path dies if unsatisfiable"""
        self.ctx.add(cond)
        self.ctx.model = None
        if not self.ctx.feasible(True if isinstance(cond, bool) and cond else z3.BoolVal(True)):
            raise Discard()

    # ---- obligations
    def check(self, label, claim, case=None):
        """leaf validity query `pc => claim`; a counterexample is recorded with its concrete case"""
        self.nchecks += 1
        m = self.ctx.holds(claim)
        if m is not None:
            req = concretize(case if case is not None else (self.replay[0] if self.replay else {}), m)
            self.violations.append({'label': label, 'case': req, 'inputs': self.ctx.witness(m)})
            return False
        return True

    def fail(self, label, case=None):
        """an unconditional violation on this path (e.g. an unexpected panic)"""
        m = self.ctx.ensure_model()
        req = concretize(case if case is not None else (self.replay[0] if self.replay else {}), m)
        self.violations.append({'label': label, 'case': req, 'inputs': self.ctx.witness(m)})

    def expect_native(self, request, expectation):
        self.replay = (request, expectation)

    def tag(self, t):
        self.tags.append(t)


class Query:
    def __init__(self, name, harness, params=None, bound='', prog='default'):
        self.name, self.harness, self.params, self.bound, self.prog = name, harness, params or {}, bound, prog


# ------------------------------------------------------------------------------------------
# worker side

_W = {}     # worker globals: programs, queries


def run_path(query, prefix, seed):
    prog = _W['progs'][query.prog]
    ctx = Ctx(prefix, smtlog=_W.get('cross'))
    I = Interp(prog, ctx)
    L = Leaf(I, ctx, query)
    L.progs = _W['progs']
    res = {'outcome': None, 'violations': [], 'replay': None, 'unsupported': None}
    try:
        out = query.harness(L, **query.params)
        res['outcome'] = out or 'ok'
    except Discard:
        res['outcome'] = 'discard'
    except Infeasible:
        res['outcome'] = 'infeasible'
    except Cut:
        res['outcome'] = 'cut'
    except Panic as e:
        # a panic the harness did not handle: harnesses catch the panics they expect
        res['outcome'] = 'unhandled-panic'
        try:
            L.fail('panic: %s' % e.msg)
        except Infeasible:
            res['outcome'] = 'infeasible'
    except Unsupported as e:
        res['outcome'] = 'unsupported'
        res['unsupported'] = str(e)
    if res['outcome'] not in ('discard', 'infeasible', 'cut', 'unsupported'):
        res['violations'] = L.violations
        if L.replay is not None:
            try:
                m = ctx.ensure_model()
                res['replay'] = (concretize(L.replay[0], m), concretize(L.replay[1], m))
            except Infeasible:
                res['outcome'] = 'infeasible'
    res['tags'] = L.tags
    res['checks'] = L.nchecks
    res['fns'] = I.trace_fns
    res['models'] = I.trace_models
    res['steps'] = I.steps
    res['decisions'] = len(ctx.path)
    return res, ctx.pending


def work(item):
    """explore (part of) the subtree below `prefix`; returns aggregate + leftover prefixes"""
    qi, prefix, budget, seed, replay_cap = item
    query = _W['queries'][qi]
    _W['cross'] = {'quota': _W.get('cross_quota', 0)}
    stack = [prefix]
    agg = {'qi': qi, 'paths': 0, 'outcomes': {}, 'violations': [], 'replays': [], 'unsupported': [], 'checks': 0,
           'fns': set(), 'models': set(), 'steps': 0, 'decisions': 0, 'tags': {}, 'errors': []}
    t0 = time.time()
    c0, s0 = STATS['checks'], STATS['solver_s']
    rnd = random.Random(seed * 1000003 + hash(tuple(prefix)) % 1000003)
    while stack and agg['paths'] < budget:
        p = stack.pop()
        try:
            res, pending = run_path(query, p, seed)
        except Exception:
            agg['errors'].append(traceback.format_exc())
            break
        stack.extend(pending)
        agg['paths'] += 1
        o = res['outcome']
        agg['outcomes'][o] = agg['outcomes'].get(o, 0) + 1
        for t in res['tags']:
            agg['tags'][t] = agg['tags'].get(t, 0) + 1
        agg['violations'].extend(res['violations'])
        if res['unsupported']:
            agg['unsupported'].append(res['unsupported'])
        if res['replay'] is not None:
            if len(agg['replays']) < replay_cap:
                agg['replays'].append(res['replay'])
            else:
                j = rnd.randrange(agg['paths'])
                if j < replay_cap:
                    agg['replays'][j] = res['replay']
        agg['checks'] += res['checks']
        agg['fns'] |= res['fns']
        agg['models'] |= res['models']
        agg['steps'] += res['steps']
        agg['decisions'] += res['decisions']
    agg['wall'] = time.time() - t0
    agg['solver_checks'] = STATS['checks'] - c0
    agg['solver_s'] = STATS['solver_s'] - s0
    agg['leftover'] = stack
    agg['cross_n'] = _W['cross'].get('n', 0)
    agg['cross_s'] = _W['cross'].get('s', 0.0)
    agg['cross_problems'] = _W['cross'].get('problems', [])
    agg['cross_timeouts'] = _W['cross'].get('timeouts', 0)
    return agg


# ------------------------------------------------------------------------------------------
# master side


def explore(progs, queries, workers=None, seed=0, budget=150, replay_cap=40, time_cap=None, log=None, cross_quota=0):
    """run all queries to completion; returns per-query aggregates"""
    workers = workers or min(16, os.cpu_count() or 1)
    _W['progs'], _W['queries'] = progs, queries
    _W['cross_quota'] = cross_quota
    # load unicode tables before forking
    models.unicode_tables()
    results = [{'name': q.name, 'bound': q.bound, 'paths': 0, 'outcomes': {}, 'violations': [], 'replays': [],
                'unsupported': [], 'checks': 0, 'fns': set(), 'models': set(), 'steps': 0, 'decisions': 0,
                'tags': {}, 'errors': [], 'solver_checks': 0, 'solver_s': 0.0, 'cpu_s': 0.0, 'complete': True, 'cross_n': 0, 'cross_s': 0.0, 'cross_problems': [], 'cross_timeouts': 0}
               for q in queries]
    t0 = time.time()
    ctxm = mp.get_context('fork')
    pool = ctxm.Pool(workers) if workers > 1 else None
    outstanding = []
    todo = [(qi, [], budget, seed, replay_cap) for qi in range(len(queries))]
    timed_out = False

    def merge(agg):
        r = results[agg['qi']]
        r['paths'] += agg['paths']
        for k, v in agg['outcomes'].items():
            r['outcomes'][k] = r['outcomes'].get(k, 0) + v
        for k, v in agg['tags'].items():
            r['tags'][k] = r['tags'].get(k, 0) + v
        r['violations'].extend(agg['violations'])
        r['unsupported'].extend(agg['unsupported'][:3])
        room = max(0, replay_cap * 4 - len(r['replays']))
        r['replays'].extend(agg['replays'][:room])
        for k in ('checks', 'steps', 'decisions', 'solver_checks', 'solver_s'):
            r[k] += agg[k]
        r['cpu_s'] += agg['wall']
        r['fns'] |= agg['fns']
        r['models'] |= agg['models']
        r['errors'].extend(agg['errors'])
        r['cross_n'] += agg['cross_n']
        r['cross_s'] += agg['cross_s']
        r['cross_timeouts'] += agg.get('cross_timeouts', 0)
        r['cross_problems'].extend(agg['cross_problems'][:3])
        for p in agg['leftover']:
            todo.append((agg['qi'], p, budget, seed, replay_cap))

    if pool is None:
        while todo:
            merge(work(todo.pop()))
            if time_cap and time.time() - t0 > time_cap:
                timed_out = True
                break
    else:
        pending = []
        while todo or pending:
            while todo and len(pending) < workers * 3:
                pending.append(pool.apply_async(work, (todo.pop(),)))
            done = [p for p in pending if p.ready()]
            if not done:
                time.sleep(0.01)
                if time_cap and time.time() - t0 > time_cap:
                    timed_out = True
                    break
                continue
            for p in done:
                pending.remove(p)
                merge(p.get())
        if timed_out:
            pool.terminate()
        else:
            pool.close()
        pool.join()
    if timed_out:
        for r in results:
            r['complete'] = False
    for r in results:
        r['wall_total'] = time.time() - t0
    return results


# ------------------------------------------------------------------------------------------
# native oracle


class Native:
    def __init__(self, binary):
        self.binary = binary

    def run(self, requests):
        if not requests:
            return []
        inp = '\n'.join(json.dumps(r) for r in requests) + '\n'
        p = subprocess.run([self.binary], input=inp.encode(), stdout=subprocess.PIPE, stderr=subprocess.PIPE, timeout=3600)
        lines = p.stdout.decode().strip().split('\n')
        if len(lines) != len(requests):
            raise RuntimeError('native oracle answered %d of %d requests; stderr: %s' % (len(lines), len(requests), p.stderr.decode()[-500:]))
        return [json.loads(l) for l in lines]
