"""mirsym: symbolic execution of rustc MIR text, decided by z3 (see DESIGN.md §3)."""
