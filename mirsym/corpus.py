"""Translator validation (DESIGN.md §4.2): the repository's own test inputs through the engine (concrete mode) and the compiled crate."""
import glob
import json
import os
import re

from .ctx import Ctx
from .interp import Interp
from .vals import Panic, Unsupported


def corpus_strings(repo):
    out = []
    for f in sorted(glob.glob(os.path.join(repo, 'xtask', 'src', 'generate_tests', '*.json'))):
        for rec in json.load(open(f)):
            for k in ('purl', 'canonical_purl'):
                if rec.get(k):
                    out.append(rec[k])
    # string literals of the unit tests that look like PURLs
    for f in glob.glob(os.path.join(repo, 'purl', 'src', '**', '*.rs'), recursive=True):
        for m in re.finditer(r'"(pkg:[^"\\]*)"', open(f).read()):
            out.append(m.group(1))
    seen, uniq = set(), []
    for s in out:
        if s not in seen:
            seen.add(s)
            uniq.append(s)
    return uniq


def validate(prog, native, repo, kinds=('String', 'SmallString', 'Purl')):
    """returns (number compared, list of mismatch descriptions)"""
    from props.common import from_str, accessors, display, err_name, KINDS, obs_expect
    from .explore import concretize, subset_match
    strings = corpus_strings(repo)
    reqs, exps = [], []
    for s in strings:
        b = list(s.encode())
        for T in kinds:
            I = Interp(prog, Ctx())
            try:
                r = from_str(I, T, b)
                if r.variant == 'Err':
                    exp = {'err': err_name(r.fields[0])}
                else:
                    p = r.fields[0]
                    exp = {'ok': concretize(obs_expect(accessors(I, T, p), display(I, T, p)), None)}
            except Panic as e:
                exp = {'panic': e.msg}
            except Unsupported as e:
                return 0, ['engine cannot execute %r for %s: %s' % (s, T, e)]
            reqs.append({'op': 'parse', 'T': KINDS[T][1], 's': s.encode().hex()})
            exps.append(exp)
    resp = native.run(reqs)
    bad = []
    for rq, ex, got in zip(reqs, exps, resp):
        d = subset_match(ex, got)
        if d:
            bad.append('%s %r: %s' % (rq['T'], bytes.fromhex(rq['s']).decode(), '; '.join(d[:2])))
    return len(reqs), bad
