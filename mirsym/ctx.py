"""Path context: path condition, solver access, forking by decision prefix."""
import time
import z3
from .vals import Infeasible, Unsupported

STATS = {'checks': 0, 'solver_s': 0.0, 'decisions': 0, 'forks': 0, 'mask_hits': 0}

_simplify = z3.simplify


def zb(x):
    """python int -> BitVecVal(8) passthrough for z3 terms"""
    return x


class Ctx:
    def __init__(self, prefix=(), timeout_ms=60000, smtlog=None):
        self.prefix = list(prefix)
        self.path = []
        self.solver = z3.SolverFor('QF_BV')
        self.solver.set('timeout', timeout_ms)
        self.pending = []          # prefixes of unexplored siblings
        self.model = None          # a model of the current path condition, when known
        self.known = {}            # z3 ast id -> bool decided on this path
        self.nvars = 0
        self.inputs = {}           # name -> z3 var (harness inputs, for witnesses)
        self.smtlog = smtlog
        self.cut_depth = None      # when set: stop (raise Cut) instead of deciding beyond this many decisions
        self.nchecks = 0

    # ---- variables
    def byte(self, name):
        v = z3.BitVec(name, 8)
        self.inputs[name] = v
        return v

    def bv(self, name, bits):
        v = z3.BitVec(name, bits)
        self.inputs[name] = v
        return v

    def boolvar(self, name):
        v = z3.Bool(name)
        self.inputs[name] = v
        return v

    def fresh(self, bits=8, tag='t'):
        self.nvars += 1
        return z3.BitVec('%s!%d' % (tag, self.nvars), bits)

    # ---- path condition
    def add(self, c):
        if isinstance(c, bool):
            if not c:
                raise Infeasible()
            return
        self.solver.add(c)
        if self.model is not None:
            try:
                if not z3.is_true(self.model.eval(c, model_completion=True)):
                    self.model = None
            except z3.Z3Exception:
                self.model = None

    def _check(self, *assumptions):
        t0 = time.time()
        r = self.solver.check(*assumptions)
        STATS['checks'] += 1
        STATS['solver_s'] += time.time() - t0
        self.nchecks += 1
        if r == z3.unknown:
            raise Unsupported('solver returned unknown: %s' % self.solver.reason_unknown())
        return r == z3.sat

    def ensure_model(self):
        if self.model is None:
            if not self._check():
                raise Infeasible()
            self.model = self.solver.model()
        return self.model

    def decide(self, cond):
        """concretise a Boolean; forks when both outcomes are feasible under the path condition"""
        if cond is True or cond is False:
            return cond
        if isinstance(cond, bool):
            return bool(cond)
        cond = _simplify(cond)
        if z3.is_true(cond):
            return True
        if z3.is_false(cond):
            return False
        cid = cond.get_id()
        k = self.known.get(cid)
        if k is not None:
            return k
        STATS['decisions'] += 1
        i = len(self.path)
        if i < len(self.prefix):
            v = self.prefix[i]
            self.path.append(v)
            self.solver.add(cond if v else z3.Not(cond))
            self.model = None
            self.known[cid] = v
            return v
        if self.cut_depth is not None and i >= self.cut_depth:
            raise Cut()
        m = self.ensure_model()
        mv = z3.is_true(m.eval(cond, model_completion=True))
        # the model witnesses side `mv`; ask the solver about the other side
        other = z3.Not(cond) if mv else cond
        if self._check(other):
            om = self.solver.model()
            STATS['forks'] += 1
            # continue on True, queue False
            self.pending.append(self.path + [False])
            v = True
            if not mv:
                self.model = om
            # else keep self.model (it satisfies cond)
        else:
            v = mv
        self.path.append(v)
        self.solver.add(cond if v else z3.Not(cond))
        self.known[cid] = v
        return v

    def choice(self, n, tag='choice'):
        """nondeterministic choice of an integer in [0, n): pure fork"""
        if n <= 1:
            return 0
        c = self.fresh(8, tag)
        self.add(z3.ULT(c, n))
        for i in range(n - 1):
            if self.decide(c == i):
                return i
        return n - 1

    # ---- leaf queries
    def holds(self, claim):
        """validity of `claim` under the path condition.  Returns None when valid, else a model."""
        if claim is True:
            return None
        if claim is False:
            return self.ensure_model()
        if isinstance(claim, bool):
            return None if claim else self.ensure_model()
        claim = _simplify(claim)
        if z3.is_true(claim):
            return None
        if self.smtlog is not None:
            self.smtlog.append((self.solver.assertions(), claim))
        if self._check(z3.Not(claim)):
            return self.solver.model()
        return None

    def feasible(self, cond):
        if isinstance(cond, bool):
            return cond
        return self._check(cond)

    def witness(self, model=None):
        m = model if model is not None else self.ensure_model()
        out = {}
        for name, v in self.inputs.items():
            val = m.eval(v, model_completion=True)
            if z3.is_bool(val):
                out[name] = z3.is_true(val)
            else:
                out[name] = val.as_long()
        return out


class Cut(Exception):
    """exploration stopped at the split depth; the prefix becomes a work item"""
