"""Path context: path condition, solver access, forking by decision prefix.

The path condition has two parts: per-byte value sets ("masks": a 256-bit set for every free input byte, holding all
unary constraints decided so far) and the z3 solver's assertions (every constraint that relates several variables).
A condition over a single free byte that is not related to other variables by any solver assertion is decided
exactly from its truth table and the byte's mask; everything else is decided by z3 under masks + assertions.
Leaf obligations always go to z3 with the complete path condition.
"""
import time
import z3
from .vals import Infeasible, Unsupported

STATS = {'checks': 0, 'solver_s': 0.0, 'decisions': 0, 'forks': 0, 'mask_decisions': 0}

_simplify = z3.simplify
FULL = (1 << 256) - 1

# global caches (per process); entries keep the expression alive so that ast ids are not reused
_TT = {}        # cond id -> (cond, var_id | None, truth table)
_FV = {}        # expr id -> (expr, frozenset of var ids)
_VARS = {}      # var id -> z3 const


def free_vars(e):
    eid = e.get_id()
    r = _FV.get(eid)
    if r is not None:
        return r[1]
    if z3.is_const(e):
        if e.decl().kind() == z3.Z3_OP_UNINTERPRETED:
            _VARS[eid] = e
            s = frozenset((eid,))
        else:
            s = frozenset()
    else:
        s = frozenset()
        for ch in e.children():
            s = s | free_vars(ch)
    _FV[eid] = (e, s)
    return s


def _range_tt(lo, hi):
    if lo > hi:
        return 0
    return ((1 << (hi + 1)) - 1) & ~((1 << lo) - 1)


def truth_table(cond):
    """(var_id, tt) if `cond` is a predicate over exactly one 8-bit variable, else None"""
    cid = cond.get_id()
    r = _TT.get(cid)
    if r is not None:
        return r[1]
    res = _tt(cond)
    _TT[cid] = (cond, res)
    return res


def _is_var8(e):
    return z3.is_const(e) and e.decl().kind() == z3.Z3_OP_UNINTERPRETED and z3.is_bv(e) and e.size() == 8


def _tt(cond):
    k = cond.decl().kind()
    if k == z3.Z3_OP_NOT:
        r = truth_table(cond.arg(0))
        return None if r is None else (r[0], FULL & ~r[1])
    if k in (z3.Z3_OP_AND, z3.Z3_OP_OR):
        var, acc = None, (FULL if k == z3.Z3_OP_AND else 0)
        for ch in cond.children():
            r = truth_table(ch)
            if r is None or (var is not None and r[0] != var):
                return _tt_subst(cond)
            var = r[0]
            acc = (acc & r[1]) if k == z3.Z3_OP_AND else (acc | r[1])
        return (var, acc) if var is not None else None
    if k == z3.Z3_OP_EQ and cond.num_args() == 2:
        a, b = cond.arg(0), cond.arg(1)
        if _is_var8(a) and z3.is_bv_value(b):
            free_vars(a)
            return (a.get_id(), 1 << b.as_long())
        if _is_var8(b) and z3.is_bv_value(a):
            free_vars(b)
            return (b.get_id(), 1 << a.as_long())
        return _tt_subst(cond)
    if k in (z3.Z3_OP_ULEQ, z3.Z3_OP_UGEQ, z3.Z3_OP_ULT, z3.Z3_OP_UGT):
        a, b = cond.arg(0), cond.arg(1)
        if k in (z3.Z3_OP_UGEQ, z3.Z3_OP_UGT):
            a, b = b, a
            k = z3.Z3_OP_ULEQ if k == z3.Z3_OP_UGEQ else z3.Z3_OP_ULT
        strict = k == z3.Z3_OP_ULT
        if _is_var8(a) and z3.is_bv_value(b):       # v <= c  /  v < c
            free_vars(a)
            c = b.as_long()
            return (a.get_id(), _range_tt(0, c - 1 if strict else c))
        if _is_var8(b) and z3.is_bv_value(a):       # c <= v  /  c < v
            free_vars(b)
            c = a.as_long()
            return (b.get_id(), _range_tt(c + 1 if strict else c, 255))
        return _tt_subst(cond)
    if z3.is_bool(cond):
        return _tt_subst(cond)
    return None


class _NoCompile(Exception):
    pass


_TAB = {}      # term id -> (term, 256-entry value table)
_R256 = list(range(256))


def _table(e):
    """value table (indexed by the value of the single free byte) of a z3 term; memoised per sub-term"""
    eid = e.get_id()
    r = _TAB.get(eid)
    if r is not None:
        return r[1]
    Z = z3
    k = e.decl().kind()
    if Z.is_bv_value(e):
        t = [e.as_long()] * 256
    elif Z.is_true(e):
        t = [True] * 256
    elif Z.is_false(e):
        t = [False] * 256
    elif Z.is_const(e) and k == Z.Z3_OP_UNINTERPRETED:
        t = _R256
    else:
        cs = e.children()
        ch = [_table(c) for c in cs]
        n = len(ch)
        if Z.is_bv(e):
            w = e.size()
            M = (1 << w) - 1
        if k == Z.Z3_OP_BADD:
            t = [sum(v) & M for v in zip(*ch)]
        elif k == Z.Z3_OP_BSUB:
            t = [(a - b) & M for a, b in zip(*ch)]
        elif k == Z.Z3_OP_BMUL and n == 2:
            t = [(a * b) & M for a, b in zip(*ch)]
        elif k == Z.Z3_OP_BAND and n == 2:
            t = [a & b for a, b in zip(*ch)]
        elif k == Z.Z3_OP_BOR and n == 2:
            t = [a | b for a, b in zip(*ch)]
        elif k == Z.Z3_OP_BOR:
            t = []
            for v in zip(*ch):
                r0 = 0
                for y in v:
                    r0 |= y
                t.append(r0)
        elif k == Z.Z3_OP_BXOR and n == 2:
            t = [a ^ b for a, b in zip(*ch)]
        elif k == Z.Z3_OP_BNOT:
            t = [~a & M for a in ch[0]]
        elif k == Z.Z3_OP_BNEG:
            t = [-a & M for a in ch[0]]
        elif k == Z.Z3_OP_BLSHR:
            t = [(a >> b) if b < w else 0 for a, b in zip(*ch)]
        elif k == Z.Z3_OP_BSHL:
            t = [((a << b) & M) if b < w else 0 for a, b in zip(*ch)]
        elif k == Z.Z3_OP_EXTRACT:
            hi, lo = e.params()
            mm = (1 << (hi - lo + 1)) - 1
            t = [(a >> lo) & mm for a in ch[0]]
        elif k == Z.Z3_OP_CONCAT:
            ws = [c.size() for c in cs]
            t = []
            for v in zip(*ch):
                r0 = 0
                for y, cw in zip(v, ws):
                    r0 = (r0 << cw) | y
                t.append(r0)
        elif k == Z.Z3_OP_ZERO_EXT:
            t = ch[0]
        elif k == Z.Z3_OP_ITE:
            t = [a if c else b for c, a, b in zip(*ch)]
        elif k == Z.Z3_OP_EQ:
            t = [a == b for a, b in zip(*ch)]
        elif k == Z.Z3_OP_DISTINCT and n == 2:
            t = [a != b for a, b in zip(*ch)]
        elif k == Z.Z3_OP_ULEQ:
            t = [a <= b for a, b in zip(*ch)]
        elif k == Z.Z3_OP_ULT:
            t = [a < b for a, b in zip(*ch)]
        elif k == Z.Z3_OP_UGEQ:
            t = [a >= b for a, b in zip(*ch)]
        elif k == Z.Z3_OP_UGT:
            t = [a > b for a, b in zip(*ch)]
        elif k == Z.Z3_OP_NOT:
            t = [not a for a in ch[0]]
        elif k == Z.Z3_OP_AND:
            t = [all(v) for v in zip(*ch)]
        elif k == Z.Z3_OP_OR:
            t = [any(v) for v in zip(*ch)]
        elif k == Z.Z3_OP_XOR and n == 2:
            t = [bool(a) != bool(b) for a, b in zip(*ch)]
        elif k == Z.Z3_OP_IMPLIES:
            t = [(not a) or b for a, b in zip(*ch)]
        else:
            raise _NoCompile(str(e.decl()))
    _TAB[eid] = (e, t)
    return t


def _tt_subst(cond):
    fv = free_vars(cond)
    if len(fv) != 1:
        return None
    vid = next(iter(fv))
    v = _VARS[vid]
    if not (z3.is_bv(v) and v.size() == 8):
        return None
    tt = 0
    try:
        tab = _table(cond)
        for i in range(256):
            if tab[i]:
                tt |= 1 << i
        return (vid, tt)
    except _NoCompile:
        pass
    for i in range(256):
        r = _simplify(z3.substitute(cond, (v, z3.BitVecVal(i, 8))))
        if z3.is_true(r):
            tt |= 1 << i
        elif not z3.is_false(r):
            return None
    return (vid, tt)


_PT = {}       # (term id, pred) -> (term, (var id, tt) | None)


def _pred_tt(x, pred):
    """truth table over the single free byte of term x for `value(x) in pred`"""
    fv = free_vars(x)
    if len(fv) != 1:
        return None
    vid = next(iter(fv))
    v = _VARS[vid]
    if not (z3.is_bv(v) and v.size() == 8):
        return None
    if x.get_id() == vid:
        return (vid, pred)
    try:
        tab = _table(x)
    except _NoCompile:
        return None
    tt = 0
    for i in range(256):
        if pred >> tab[i] & 1:
            tt |= 1 << i
    return (vid, tt)


def mask_constraint(v, mask):
    rs, i = [], 0
    while i < 256:
        if mask >> i & 1:
            j = i
            while j + 1 < 256 and mask >> (j + 1) & 1:
                j += 1
            rs.append((i, j))
            i = j + 1
        else:
            i += 1
    if not rs:
        return z3.BoolVal(False)
    terms = []
    for lo, hi in rs:
        if lo == hi:
            terms.append(v == lo)
        elif lo == 0:
            terms.append(z3.ULE(v, hi))
        elif hi == 255:
            terms.append(z3.UGE(v, lo))
        else:
            terms.append(z3.And(z3.UGE(v, lo), z3.ULE(v, hi)))
    return terms[0] if len(terms) == 1 else z3.Or(terms)


def cross_check(assertions, claim, z3_sat, log):
    """re-decide one leaf obligation with cvc5 on the SMT-LIB2 text; disagreement / error is recorded"""
    import subprocess
    s2 = z3.Solver()
    s2.add(assertions)
    s2.add(z3.Not(claim))
    text = '(set-logic ALL)\n' + s2.to_smt2().replace('(set-info :status unknown)', '')
    t0 = time.time()
    try:
        p = subprocess.run(['cvc5', '--lang', 'smt2', '--tlimit=60000'], input=text.encode(), stdout=subprocess.PIPE, stderr=subprocess.PIPE, timeout=90)
        out = p.stdout.decode().strip().split('\n')[0] if p.stdout else ''
        err = p.stderr.decode()
    except Exception as e:       # noqa
        out, err = 'error', str(e)
    log['n'] = log.get('n', 0) + 1
    log['s'] = log.get('s', 0.0) + time.time() - t0
    if 'timeout' in err.lower() or 'timeout' in out.lower() or out == 'unknown':
        log['timeouts'] = log.get('timeouts', 0) + 1      # the second solver gave up: this obligation is simply not re-checked
        log['n'] -= 1
    elif out not in ('sat', 'unsat') or '(error' in err or '(error' in out:
        log.setdefault('problems', []).append('cvc5 answered %r %s' % (out, err[:200]))
    elif (out == 'sat') != z3_sat:
        log.setdefault('problems', []).append('z3 says %s, cvc5 says %s' % ('sat' if z3_sat else 'unsat', out))


class Cut(Exception):
    """exploration stopped at the split depth; the prefix becomes a work item"""


class Ctx:
    def __init__(self, prefix=(), timeout_ms=120000, smtlog=None, use_masks=True):
        self.prefix = list(prefix)
        self.path = []
        self.solver = z3.SolverFor('QF_BV')
        self.solver.set('timeout', timeout_ms)
        self.pending = []          # prefixes of unexplored siblings
        self.model = None          # a model of the current path condition, when known
        self.known = {}            # z3 ast id -> bool decided on this path
        self.nvars = 0
        self.inputs = {}           # name -> z3 var (harness inputs, for witnesses)
        self.smtlog = smtlog
        self.cut_depth = None
        self.nchecks = 0
        self.use_masks = use_masks
        self.masks = {}            # var id -> 256-bit set of still possible values
        self.dirty = set()         # var ids whose mask is not yet reflected in the solver
        self.entangled = set()     # var ids occurring in multi-variable solver assertions
        self.keep = []

    # ---- variables
    def byte(self, name):
        if name in self.inputs:          # the same hole used twice: the same variable, constraints kept
            return self.inputs[name]
        v = z3.BitVec(name, 8)
        self.inputs[name] = v
        free_vars(v)
        self.masks[v.get_id()] = FULL
        return v

    def bv(self, name, bits):
        v = z3.BitVec(name, bits)
        self.inputs[name] = v
        return v

    def boolvar(self, name):
        v = z3.Bool(name)
        self.inputs[name] = v
        return v

    def fresh(self, bits=8, tag='t'):
        self.nvars += 1
        return z3.BitVec('%s!%d' % (tag, self.nvars), bits)

    # ---- path condition
    def _flush(self):
        if self.dirty:
            for vid in self.dirty:
                self.solver.add(mask_constraint(_VARS[vid], self.masks[vid]))
            self.dirty.clear()

    def _solver_add(self, c):
        fv = free_vars(c)
        if len(fv) > 1:
            self.entangled |= fv
        self.solver.add(c)
        if self.model is not None:
            try:
                if not z3.is_true(self.model.eval(c, model_completion=True)):
                    self.model = None
            except z3.Z3Exception:
                self.model = None

    def _mask_update(self, vid, newmask):
        self.masks[vid] = newmask
        self.dirty.add(vid)
        if self.model is not None:
            val = self.model.eval(_VARS[vid], model_completion=True).as_long()
            if not (newmask >> val) & 1:
                self.model = None

    def add(self, c):
        if isinstance(c, bool):
            if not c:
                raise Infeasible()
            return
        c = _simplify(c)
        if z3.is_true(c):
            return
        if z3.is_false(c):
            raise Infeasible()
        r = truth_table(c) if self.use_masks else None
        if r is not None and r[0] in self.masks:
            nm = self.masks[r[0]] & r[1]
            if nm == 0:
                raise Infeasible()
            self._mask_update(r[0], nm)
            return
        self._solver_add(c)

    def _check(self, *assumptions):
        self._flush()
        t0 = time.time()
        r = self.solver.check(*assumptions)
        STATS['checks'] += 1
        STATS['solver_s'] += time.time() - t0
        self.nchecks += 1
        if r == z3.unknown:
            raise Unsupported('solver returned unknown: %s' % self.solver.reason_unknown())
        return r == z3.sat

    def ensure_model(self):
        if self.model is None:
            if not self._check():
                raise Infeasible()
            self.model = self.solver.model()
        return self.model

    def decide(self, cond):
        """concretise a Boolean; forks when both outcomes are feasible under the path condition"""
        if cond is True or cond is False:
            return cond
        if isinstance(cond, bool):
            return bool(cond)
        cond = _simplify(cond)
        if z3.is_true(cond):
            return True
        if z3.is_false(cond):
            return False
        cid = cond.get_id()
        k = self.known.get(cid)
        if k is not None:
            return k
        self.keep.append(cond)
        r = truth_table(cond) if self.use_masks else None
        if r is not None and r[0] not in self.masks:
            r = None
        return self._decide(cid, r, cond, None)

    def decide_pred(self, x, pred):
        """decide `value of byte term x is in the set pred` (pred: 256-bit truth table over the value)"""
        if isinstance(x, int):
            return bool(pred >> x & 1)
        key = (x.get_id(), pred)
        k = self.known.get(key)
        if k is not None:
            return k
        r = _PT.get(key)
        if r is None:
            r = (x, _pred_tt(x, pred))
            _PT[key] = r
        r = r[1]
        if r is not None and (not self.use_masks or r[0] not in self.masks):
            r = None
        return self._decide(key, r, None, (x, pred))

    def _decide(self, cid, r, cond, lazy):
        if r is not None:
            vid, tt = r
            m = self.masks[vid]
            t, f = m & tt, m & ~tt & FULL
            if t == 0 or f == 0:
                # decided by the unary constraints alone (no decision point, nothing to record)
                if t == 0 and f == 0:
                    raise Infeasible()
                v = t != 0
                self.known[cid] = v
                return v
        STATS['decisions'] += 1
        i = len(self.path)
        if i < len(self.prefix):
            v = self.prefix[i]
        elif self.cut_depth is not None and i >= self.cut_depth:
            raise Cut()
        elif r is not None and r[0] not in self.entangled:
            # both values are possible for a byte nothing else depends on: exact, no solver call
            STATS['mask_decisions'] += 1
            STATS['forks'] += 1
            self.pending.append(self.path + [False])
            v = True
        else:
            if cond is None:
                cond = _simplify(mask_constraint(lazy[0], lazy[1]))
                self.keep.append(cond)
            m = self.ensure_model()
            mv = z3.is_true(m.eval(cond, model_completion=True))
            other = z3.Not(cond) if mv else cond
            if self._check(other):
                om = self.solver.model()
                STATS['forks'] += 1
                self.pending.append(self.path + [False])
                v = True
                if not mv:
                    self.model = om
            else:
                v = mv
        self.path.append(v)
        self.known[cid] = v
        if r is not None:
            vid, tt = r
            nm = self.masks[vid] & (tt if v else (FULL & ~tt))
            if nm == 0:
                raise Infeasible()
            self._mask_update(vid, nm)
        else:
            if cond is None:
                cond = _simplify(mask_constraint(lazy[0], lazy[1]))
                self.keep.append(cond)
            self._solver_add(cond if v else z3.Not(cond))
        return v

    def choice(self, n, tag='choice'):
        """nondeterministic choice of an integer in [0, n): pure fork"""
        if n <= 1:
            return 0
        c = self.fresh(8, tag)
        self._solver_add(z3.ULT(c, n))
        for i in range(n - 1):
            if self.decide(c == i):
                return i
        return n - 1

    # ---- leaf queries
    def holds(self, claim):
        """validity of `claim` under the path condition.  Returns None when valid, else a model."""
        if claim is True:
            return None
        if claim is False:
            return self.ensure_model()
        if isinstance(claim, bool):
            return None if claim else self.ensure_model()
        claim = _simplify(claim)
        if z3.is_true(claim):
            return None
        sat = self._check(z3.Not(claim))
        if self.smtlog is not None and self.smtlog.get('quota', 0) > 0:
            self.smtlog['quota'] -= 1
            cross_check(self.solver.assertions(), claim, sat, self.smtlog)
        if sat:
            return self.solver.model()
        return None

    def feasible(self, cond=True):
        if cond is True:
            return self._check()
        if cond is False:
            return False
        return self._check(cond)

    def witness(self, model=None):
        m = model if model is not None else self.ensure_model()
        out = {}
        for name, v in self.inputs.items():
            val = m.eval(v, model_completion=True)
            if z3.is_bool(val):
                out[name] = z3.is_true(val)
            else:
                out[name] = val.as_long()
        return out
