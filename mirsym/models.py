"""API-level models of std / dependency functions called by purl's MIR.

Every model is part of the trusted base; each run validates them by replaying path witnesses against
the compiled crate (see DESIGN.md §4).  Models receive (I, callee, *args).
"""
import json
import os
import z3
from . import types as T
from .types import head, show
from .interp import model, MODELS, Interp, Env, EMPTY_ENV, _mk_callee, Program
from .vals import *

# =========================================================================================
# helpers


def sbytes(v):
    """byte tuple of any string-like value"""
    v = deref_all(v)
    if isinstance(v, RStr):
        return v.b
    if isinstance(v, StringBuf):
        return tuple(v.b)
    if isinstance(v, Adt):
        if v.ty == 'Cow':
            return sbytes(v.fields[0])
        if v.ty in ('QualifierKey', 'UniCase', 'ChecksumValue') or (v.variant is None and len(v.fields) == 1):
            return sbytes(v.fields[0])
    if isinstance(v, StrMut):
        return tuple(v.buf.b)
    raise Unsupported('not a string: %r' % (v,))


class StrMut(Opaque):
    """&mut str view of a StringBuf"""
    def __init__(self, buf):
        self.buf = buf


def strbuf_of(v):
    v = deref_all(v)
    if isinstance(v, StrMut):
        return v.buf
    if isinstance(v, StringBuf):
        return v
    raise Unsupported('not a String: %r' % (v,))


def beq(I, a, b):
    if isinstance(a, int):
        if isinstance(b, int):
            return a == b
        a, b = b, a
    if isinstance(b, int) and a.size() == 8 and 0 <= b < 256:
        return I.ctx.decide_pred(a, 1 << b)
    return I.ctx.decide(a == b)


def in_range(I, x, lo, hi):
    if isinstance(x, int):
        return lo <= x <= hi
    if x.size() == 8:
        return I.ctx.decide_pred(x, ((1 << (hi + 1)) - 1) & ~((1 << lo) - 1))
    return I.ctx.decide(z3.And(z3.UGE(x, lo), z3.ULE(x, hi)))


def in_set(I, x, tt):
    """membership of a byte in a constant set given as a 256-bit table"""
    if isinstance(x, int):
        return bool(tt >> x & 1)
    return I.ctx.decide_pred(x, tt)


def rng(x, lo, hi):
    """symbolic/concrete range predicate (no fork)"""
    if isinstance(x, int):
        return lo <= x <= hi
    return z3.And(z3.UGE(x, lo), z3.ULE(x, hi))


def b_or(*xs):
    if any(x is True for x in xs):
        return True
    ys = [x for x in xs if x is not False]
    if not ys:
        return False
    return ys[0] if len(ys) == 1 else z3.Or(ys)


def b_and(*xs):
    if any(x is False for x in xs):
        return False
    ys = [x for x in xs if x is not True]
    if not ys:
        return True
    return ys[0] if len(ys) == 1 else z3.And(ys)


def b_not(x):
    return (not x) if isinstance(x, bool) else z3.Not(x)


def str_eq(I, a, b):
    if len(a) != len(b):
        return False
    for x, y in zip(a, b):
        if not beq(I, x, y):
            return False
    return True


def seq_cmp(I, a, b):
    """lexicographic comparison of two sequences of scalars -> -1/0/1 (forks)"""
    for x, y in zip(a, b):
        if isinstance(x, int) and isinstance(y, int):
            if x != y:
                return -1 if x < y else 1
        else:
            if isinstance(x, int):
                x = z3.BitVecVal(x, y.size())
            if isinstance(y, int):
                y = z3.BitVecVal(y, x.size())
            if not I.ctx.decide(x == y):
                return -1 if I.ctx.decide(z3.ULT(x, y)) else 1
    return (len(a) > len(b)) - (len(a) < len(b))


def zx(v, bits=32):
    if isinstance(v, int):
        return v
    return z3.ZeroExt(bits - v.size(), v) if v.size() < bits else v


# ---- UTF-8
def utf8_valid(I, b):
    """strict UTF-8 validation of a byte sequence with possibly symbolic bytes (forks)"""
    i, n = 0, len(b)
    while i < n:
        x = b[i]
        if in_range(I, x, 0, 0x7F):
            i += 1
            continue
        if in_range(I, x, 0xC2, 0xDF): need, lo, hi = 1, 0x80, 0xBF
        elif in_range(I, x, 0xE0, 0xE0): need, lo, hi = 2, 0xA0, 0xBF
        elif in_range(I, x, 0xED, 0xED): need, lo, hi = 2, 0x80, 0x9F
        elif in_range(I, x, 0xE1, 0xEF): need, lo, hi = 2, 0x80, 0xBF
        elif in_range(I, x, 0xF0, 0xF0): need, lo, hi = 3, 0x90, 0xBF
        elif in_range(I, x, 0xF1, 0xF3): need, lo, hi = 3, 0x80, 0xBF
        elif in_range(I, x, 0xF4, 0xF4): need, lo, hi = 3, 0x80, 0x8F
        else:
            return False
        if i + need >= n:
            return False
        if not in_range(I, b[i + 1], lo, hi):
            return False
        for j in range(2, need + 1):
            if not in_range(I, b[i + j], 0x80, 0xBF):
                return False
        i += need + 1
    return True


def decode_char(I, b, i):
    """(scalar value, width) of the char starting at b[i]; b is valid UTF-8; forks on the lead byte class"""
    x = b[i]
    if isinstance(x, int):
        if x < 0x80:
            return x, 1
        w = 2 if x < 0xE0 else (3 if x < 0xF0 else 4)
    else:
        if in_range(I, x, 0, 0x7F):
            return z3.ZeroExt(24, x), 1
        w = 2 if in_range(I, x, 0xC0, 0xDF) else (3 if in_range(I, x, 0xE0, 0xEF) else 4)
    bs = b[i:i + w]
    if all(isinstance(y, int) for y in bs):
        return ord(bytes(bs).decode()), w
    def W(v):
        return z3.BitVecVal(v, 32) if isinstance(v, int) else z3.ZeroExt(24, v)
    if w == 2:
        c = ((W(bs[0]) & 0x1F) << 6) | (W(bs[1]) & 0x3F)
    elif w == 3:
        c = ((W(bs[0]) & 0x0F) << 12) | ((W(bs[1]) & 0x3F) << 6) | (W(bs[2]) & 0x3F)
    else:
        c = ((W(bs[0]) & 0x07) << 18) | ((W(bs[1]) & 0x3F) << 12) | ((W(bs[2]) & 0x3F) << 6) | (W(bs[3]) & 0x3F)
    c = z3.simplify(c)
    if c.get_id() not in CHAR_BOUNDS:
        CHAR_BOUNDS[c.get_id()] = (c,) + {2: (0x80, 0x7FF), 3: (0x800, 0xFFFF), 4: (0x10000, 0x10FFFF)}[w]
    return c, w


def encode_char(I, c):
    if isinstance(c, int):
        return list(chr(c).encode())
    ctx = I.ctx
    if c.size() == 8:
        return [c]

    def ex(hi, lo):
        return z3.Extract(hi, lo, c)
    S = z3.simplify
    if ctx.decide(z3.ULT(c, 0x80)):
        return [S(ex(7, 0))]
    if ctx.decide(z3.ULT(c, 0x800)):
        return [S(0xC0 | z3.ZeroExt(3, ex(10, 6))), S(0x80 | z3.ZeroExt(2, ex(5, 0)))]
    if ctx.decide(z3.ULT(c, 0x10000)):
        return [S(0xE0 | z3.ZeroExt(4, ex(15, 12))), S(0x80 | z3.ZeroExt(2, ex(11, 6))), S(0x80 | z3.ZeroExt(2, ex(5, 0)))]
    return [S(0xF0 | z3.ZeroExt(5, ex(20, 18))), S(0x80 | z3.ZeroExt(2, ex(17, 12))),
            S(0x80 | z3.ZeroExt(2, ex(11, 6))), S(0x80 | z3.ZeroExt(2, ex(5, 0)))]


def chars_of(I, b):
    out, i = [], 0
    while i < len(b):
        c, w = decode_char(I, b, i)
        out.append(c)
        i += w
    return out


# ---- Unicode tables (dumped from the real std / unicase by the native helper; see native/)
_UNI = None


def ranges(cs):
    """sorted scalar values -> list of (lo, hi, step) with step 1 or 2 (alternating-case blocks compress well)"""
    runs = []
    for c in sorted(cs):
        if runs and runs[-1][1] == c - 1:
            runs[-1][1] = c
        else:
            runs.append([c, c])
    out = []
    for lo, hi in runs:
        if lo == hi and out and out[-1][2] == 2 and out[-1][1] == lo - 2:
            out[-1][1] = lo
        elif lo == hi and out and out[-1][0] == out[-1][1] and out[-1][1] == lo - 2:
            out[-1][1], out[-1][2] = lo, 2
        else:
            out.append([lo, hi, 1])
    return [tuple(x) for x in out]


def unicode_tables():
    global _UNI
    if _UNI is None:
        p = os.environ.get('MIRSYM_UNICODE', os.path.join(os.path.dirname(__file__), '..', '.build', 'unicode.json'))
        d = json.load(open(p))
        up = set(d['uppercase'])
        lower = {int(k): v for k, v in d['lowercase'].items()}
        fold = {int(k): v for k, v in d.get('unicase_fold', {}).items()}
        _UNI = {'upper': up, 'upper_r': ranges(up), 'lower': lower, 'fold': fold,
                'ignorable': set(d.get('case_ignorable', [])), 'cased': set(d.get('cased_not_ignorable', []))}
        _UNI['classes'] = {k: [(r[0], r[1], 1) for r in v] for k, v in d.get('classes', {}).items()}
        _UNI['ignorable_r'] = ranges(_UNI['ignorable'])
        _UNI['cased_r'] = ranges(_UNI['cased'])
        deltas, multi = {}, {}
        for c, mp in lower.items():
            if c < 0x80:
                continue
            if len(mp) == 1:
                deltas.setdefault(mp[0] - c, []).append(c)
            else:
                multi[c] = list(mp)
        _UNI['lower_deltas'] = [(dl, ranges(v)) for dl, v in sorted(deltas.items(), key=lambda kv: -len(kv[1]))]
        _UNI['lower_multi'] = multi
    return _UNI


_IR = {}
CHAR_BOUNDS = {}     # char term id -> (term, lo, hi): scalar-value bounds implied by the UTF-8 width it was decoded from


def rng3(c, lo, hi, step):
    if step == 1 or lo == hi:
        return rng(c, lo, hi)
    if isinstance(c, int):
        return lo <= c <= hi and (c - lo) % 2 == 0
    return z3.And(z3.UGE(c, lo), z3.ULE(c, hi), z3.Extract(0, 0, c) == (lo & 1))


def clip_ranges(rs, blo, bhi):
    out = []
    for lo, hi, st in rs:
        if hi < blo or lo > bhi:
            continue
        if lo < blo:
            lo = blo + ((blo - lo) % st)
        if hi > bhi:
            hi = bhi - ((bhi - lo) % st)
        if lo <= hi:
            out.append((lo, hi, st))
    return out


def in_ranges(c, rs):
    """membership of a scalar value in a list of (lo, hi, step) ranges (formula memoised per term)"""
    if isinstance(c, int):
        return any(lo <= c <= hi and (c - lo) % st == 0 for lo, hi, st in rs)
    key = (c.get_id(), id(rs))
    r = _IR.get(key)
    if r is not None:
        return r[1]
    bd = CHAR_BOUNDS.get(c.get_id())
    use = clip_ranges(rs, bd[1], bd[2]) if bd is not None else rs
    f = b_or(*[rng3(c, lo, hi, st) for lo, hi, st in use])
    _IR[key] = (c, f, rs)
    return f


_LOWER_EXPR = {}


def char_lower_seq(I, c):
    """char::to_lowercase as a list of scalar values.  Forks only for ASCII / multi-char mappings; the
    single-char non-ASCII mapping is one piecewise term c + delta(c)."""
    U = unicode_tables()
    if isinstance(c, int):
        if c < 0x80:
            return [c + 0x20 if 0x41 <= c <= 0x5A else c]
        return list(U['lower'].get(c, [c]))
    c = zx(c)
    bd = CHAR_BOUNDS.get(c.get_id())
    if bd is None or bd[1] < 0x80:
        if I.ctx.decide(z3.ULT(c, 0x80)):
            if I.ctx.decide(rng(c, 0x41, 0x5A)):
                return [z3.simplify(c + 0x20)]
            return [c]
    for k, mp in sorted(U['lower_multi'].items()):
        if bd is not None and not (bd[1] <= k <= bd[2]):
            continue
        if I.ctx.decide(c == k):
            return list(mp)
    r = _LOWER_EXPR.get(c.get_id())
    if r is None:
        e = c
        blo, bhi = (bd[1], bd[2]) if bd is not None else (0x80, 0x10FFFF)
        for dl, rs in U['lower_deltas']:
            use = clip_ranges(rs, blo, bhi)
            if not use:
                continue
            cond = b_or(*[rng3(c, lo, hi, st) for lo, hi, st in use])
            e = z3.If(cond, c + z3.BitVecVal(dl % 2 ** 32, 32), e)
        r = (c, z3.simplify(e))
        _LOWER_EXPR[c.get_id()] = r
    return [r[1]]


# =========================================================================================
# iterators (python-side protocol: .next(I) -> value | STOP)

STOP = object()


class It(Opaque):
    def next(self, I):
        raise NotImplementedError

    def next_back(self, I):
        raise Unsupported('next_back on %r' % self)

    def drain(self, I):
        out = []
        while True:
            v = self.next(I)
            if v is STOP:
                return out
            out.append(v)


class ListIt(It):
    def __init__(self, xs):
        self.xs, self.i, self.j = list(xs), 0, None
        self.j = len(self.xs)

    def next(self, I):
        if self.i >= self.j:
            return STOP
        self.i += 1
        return self.xs[self.i - 1]

    def next_back(self, I):
        if self.i >= self.j:
            return STOP
        self.j -= 1
        return self.xs[self.j]

    def remaining(self):
        return self.j - self.i


class CharsIt(It):
    def __init__(self, b):
        self.b, self.i = b, 0

    def next(self, I):
        if self.i >= len(self.b):
            return STOP
        c, w = decode_char(I, self.b, self.i)
        self.i += w
        return c


class SplitIt(It):
    def __init__(self, b, ch):
        self.b, self.ch, self.done = b, ch, False

    def next(self, I):
        if self.done:
            return STOP
        for i, x in enumerate(self.b):
            if beq(I, x, self.ch):
                r = RStr(self.b[:i])
                self.b = self.b[i + 1:]
                return r
        self.done = True
        return RStr(self.b)


class VecRefIt(It):
    """slice::Iter / IterMut: yields references to the elements"""
    def __init__(self, vec, lo=0, hi=None):
        self.vec, self.i = vec, lo
        self.j = len(vec.items) if hi is None else hi

    def next(self, I):
        if self.i >= self.j:
            return STOP
        self.i += 1
        return Ref(self.vec.items, self.i - 1)

    def next_back(self, I):
        if self.i >= self.j:
            return STOP
        self.j -= 1
        return Ref(self.vec.items, self.j)

    def remaining(self):
        return self.j - self.i


class MapIt(It):
    def __init__(self, inner, f):
        self.inner, self.f = inner, f

    def next(self, I):
        v = self.inner.next(I)
        return STOP if v is STOP else I.call_value(self.f, [v])

    def next_back(self, I):
        v = self.inner.next_back(I)
        return STOP if v is STOP else I.call_value(self.f, [v])


class FilterIt(It):
    def __init__(self, inner, f):
        self.inner, self.f = inner, f

    def next(self, I):
        while True:
            v = self.inner.next(I)
            if v is STOP:
                return STOP
            if I.ctx.decide(I.call_value(self.f, [Ref([v], 0)])):
                return v


class FlatMapIt(It):
    def __init__(self, inner, f):
        self.inner, self.f, self.cur = inner, f, None

    def next(self, I):
        while True:
            if self.cur is not None:
                v = self.cur.next(I)
                if v is not STOP:
                    return v
                self.cur = None
            x = self.inner.next(I)
            if x is STOP:
                return STOP
            self.cur = as_iter(I, I.call_value(self.f, [x]))


def as_iter(I, v):
    v0 = v
    v = deref_all(v)
    if isinstance(v, It):
        return v
    if isinstance(v, VecVal):
        if isinstance(v0, Ref):
            return VecRefIt(v)
        return ListIt(v.items)
    if isinstance(v, Adt) and v.ty == 'Option':
        return ListIt(v.fields)
    raise Unsupported('not an iterator: %r' % (v,))


@model('IntoIterator::into_iter')
def m_into_iter(I, c, x):
    v = deref_all(x)
    if isinstance(v, It):
        return v
    if isinstance(v, MapVal):
        return map_iter(I, v, by_ref=isinstance(x, Ref))
    return as_iter(I, x)


@model('Iterator::next')
def m_iter_next(I, c, r):
    v = deref_all(r).next(I)
    return NONE_() if v is STOP else Some(v)


@model('DoubleEndedIterator::next_back')
def m_iter_next_back(I, c, r):
    v = deref_all(r).next_back(I)
    return NONE_() if v is STOP else Some(v)


@model('ExactSizeIterator::len')
def m_iter_len(I, c, r):
    return deref_all(r).remaining()


@model('Iterator::size_hint')
def m_size_hint(I, c, r):
    it = deref_all(r)
    n = it.remaining() if hasattr(it, 'remaining') else 0
    return Tup(n, Some(n) if hasattr(it, 'remaining') else NONE_())


@model('Iterator::all')
def m_iter_all(I, c, r, f):
    it = deref_all(r)
    while True:
        v = it.next(I)
        if v is STOP:
            return True
        if not I.ctx.decide(I.call_value(f, [v])):
            return False


@model('Iterator::any')
def m_iter_any(I, c, r, f):
    it = deref_all(r)
    while True:
        v = it.next(I)
        if v is STOP:
            return False
        if I.ctx.decide(I.call_value(f, [v])):
            return True


@model('Iterator::map')
def m_iter_map(I, c, it, f):
    return MapIt(deref_all(it), f)


@model('Iterator::filter')
def m_iter_filter(I, c, it, f):
    return FilterIt(deref_all(it), f)


@model('Iterator::flat_map')
def m_iter_flat_map(I, c, it, f):
    return FlatMapIt(deref_all(it), f)


@model('Iterator::count')
def m_iter_count(I, c, it):
    return len(deref_all(it).drain(I))


@model('Iterator::sum')
def m_iter_sum(I, c, it):
    s = 0
    for v in deref_all(it).drain(I):
        if not isinstance(v, int):
            raise Unsupported('symbolic sum')
        s += v
        if s >= 2 ** 64:
            raise Panic('attempt to add with overflow (Iterator::sum)')
    return s


@model('Iterator::cmp')
def m_iter_cmp(I, c, a, b):
    xs = [zx(v) for v in as_iter(I, a).drain(I)]
    ys = [zx(v) for v in as_iter(I, b).drain(I)]
    return Ordering(seq_cmp(I, xs, ys))


@model('Iterator::lt', 'Iterator::le', 'Iterator::gt', 'Iterator::ge', 'Iterator::partial_cmp')
def m_iter_ord(I, c, a, b):
    xs = [zx(deref_all(v)) for v in as_iter(I, a).drain(I)]
    ys = [zx(deref_all(v)) for v in as_iter(I, b).drain(I)]
    for v in xs + ys:
        if not (isinstance(v, int) or is_sym(v)):
            raise Unsupported('Iterator::%s over non-scalar items' % c.method)
    o = seq_cmp(I, xs, ys)
    if c.method == 'partial_cmp':
        return Some(Ordering(o))
    return {'lt': o < 0, 'le': o <= 0, 'gt': o > 0, 'ge': o >= 0}[c.method]


@model('fn:once')
def m_once(I, c, v):
    return ListIt([v])


@model('fn:empty')
def m_empty(I, c):
    return ListIt([])


@model('Iterator::eq', 'Iterator::ne')
def m_iter_eq(I, c, a, b):
    xs = [zx(v) if not isinstance(v, (RStr, StringBuf)) else v for v in as_iter(I, a).drain(I)]
    ys = [zx(v) if not isinstance(v, (RStr, StringBuf)) else v for v in as_iter(I, b).drain(I)]
    r = len(xs) == len(ys) and seq_cmp(I, xs, ys) == 0
    return r if c.method == 'eq' else not r


@model('Iterator::rev')
def m_iter_rev(I, c, it):
    it = deref_all(it)
    xs = []
    while True:
        v = it.next_back(I)
        if v is STOP:
            break
        xs.append(v)
    return ListIt(xs)


@model('Iterator::collect')
def m_iter_collect(I, c, it):
    target = c.margs[0] if c.margs else None
    xs = as_iter(I, it).drain(I)
    h = head(target) if target else None
    if h in ('String', 'SmartString'):
        out = []
        for ch in xs:
            if isinstance(ch, (RStr, StringBuf)):
                out.extend(sbytes(ch))
            else:
                out.extend(encode_char(I, ch))
        return StringBuf(out)
    if h == 'Vec':
        return VecVal(xs)
    if h in ('Result', 'Option') and target[2] and head(target[2][0]) in ('Vec', 'String', 'SmartString'):
        # FromIterator for Result<C, E> / Option<C>: stop at the first Err / None
        good = []
        for x in xs:
            if x.variant in ('Err', 'None'):
                return x
            good.append(x.fields[0])
        inner = VecVal(good) if head(target[2][0]) == 'Vec' else None
        if inner is None:
            out = []
            for ch in good:
                out.extend(sbytes(ch) if isinstance(ch, (RStr, StringBuf)) else encode_char(I, ch))
            inner = StringBuf(out)
        return Ok(inner) if h == 'Result' else Some(inner)
    if h == 'HashMap':
        mp = MapVal()
        for x in xs:
            k, v = x.fields
            i = map_find(I, mp, k)
            if i is None:
                mp.entries.append([k, v])
            else:
                mp.entries[i][1] = v
        return mp
    raise Unsupported('collect into %s' % (show(target) if target else '?'))


# =========================================================================================
# str


@model('identity', 'fn:must_use', 'Borrow::borrow', 'fn:black_box')
def m_identity(I, c, x):
    return x


@model('str::strip_prefix')
def m_strip_prefix(I, c, s, p):
    sb, pb = sbytes(s), sbytes(p)
    if len(sb) < len(pb):
        return NONE_()
    for x, y in zip(sb, pb):
        if not beq(I, x, y):
            return NONE_()
    return Some(RStr(sb[len(pb):]))


@model('str::trim_start_matches')
def m_trim_start(I, c, s, ch):
    b = list(sbytes(s))
    while b and beq(I, b[0], ch):
        b.pop(0)
    return RStr(b)


@model('str::trim_matches')
def m_trim_matches(I, c, s, ch):
    b = list(sbytes(s))
    while b and beq(I, b[0], ch):
        b.pop(0)
    while b and beq(I, b[-1], ch):
        b.pop()
    return RStr(b)


def _ascii_pat(ch):
    if not isinstance(ch, int) or ch >= 0x80:
        raise Unsupported('non-ASCII char pattern')
    return ch


@model('str::rsplit_once')
def m_rsplit_once(I, c, s, ch):
    b = sbytes(s)
    _ascii_pat(ch)
    for i in range(len(b) - 1, -1, -1):
        if beq(I, b[i], ch):
            return Some(Tup(RStr(b[:i]), RStr(b[i + 1:])))
    return NONE_()


@model('str::split_once')
def m_split_once(I, c, s, ch):
    b = sbytes(s)
    _ascii_pat(ch)
    for i in range(len(b)):
        if beq(I, b[i], ch):
            return Some(Tup(RStr(b[:i]), RStr(b[i + 1:])))
    return NONE_()


@model('str::split')
def m_split(I, c, s, ch):
    return SplitIt(sbytes(s), _ascii_pat(ch))


@model('str::is_empty', '$S::is_empty')
def m_str_is_empty(I, c, s):
    return len(sbytes(s)) == 0


@model('str::len', '$S::len')
def m_str_len(I, c, s):
    return len(sbytes(s))


@model('str::chars')
def m_chars(I, c, s):
    return CharsIt(sbytes(s))


@model('str::as_bytes')
def m_as_bytes(I, c, s):
    return RStr(sbytes(s))


@model('str::contains')
def m_str_contains(I, c, s, pat):
    b = sbytes(s)
    p = deref_all(pat)
    if isinstance(p, int):
        _ascii_pat(p)
        for x in b:
            if beq(I, x, p):
                return True
        return False
    if isinstance(p, VecVal):
        pats = [_ascii_pat(x) for x in p.items]
        for x in b:
            if isinstance(x, int):
                if x in pats:
                    return True
            elif in_set(I, x, sum(1 << q for q in set(pats))):
                return True
        return False
    raise Unsupported('str::contains pattern %r' % (p,))


def ascii_lower_byte(x):
    if isinstance(x, int):
        return x + 0x20 if 0x41 <= x <= 0x5A else x
    return z3.If(z3.And(z3.UGE(x, 0x41), z3.ULE(x, 0x5A)), x + 0x20, x)


@model('str::make_ascii_lowercase')
def m_make_ascii_lower(I, c, s):
    buf = strbuf_of(s)
    for i, x in enumerate(buf.b):
        if isinstance(x, int):
            if 0x41 <= x <= 0x5A:
                buf.b[i] = x + 0x20
        elif in_range(I, x, 0x41, 0x5A):
            buf.b[i] = z3.simplify(x + 0x20)
    return UNIT()


@model('str::to_ascii_lowercase')
def m_to_ascii_lower(I, c, s):
    out = []
    for x in sbytes(s):
        if isinstance(x, int):
            out.append(x + 0x20 if 0x41 <= x <= 0x5A else x)
        elif in_range(I, x, 0x41, 0x5A):
            out.append(z3.simplify(x + 0x20))
        else:
            out.append(x)
    return StringBuf(out)


def _char_class(I, ch):
    """'ignorable' | 'cased' | 'other' for the final-sigma rule of str::to_lowercase (forks)"""
    U = unicode_tables()
    if not U['ignorable']:
        raise Unsupported('str::to_lowercase: case-ignorable table missing')
    if isinstance(ch, int):
        return 'ignorable' if ch in U['ignorable'] else ('cased' if ch in U['cased'] else 'other')
    ch = zx(ch)
    if I.ctx.decide(in_ranges(ch, U['ignorable_r'])):
        return 'ignorable'
    return 'cased' if I.ctx.decide(in_ranges(ch, U['cased_r'])) else 'other'


def _ignorable_then_cased(I, seq):
    for ch in seq:
        k = _char_class(I, ch)
        if k == 'ignorable':
            continue
        return k == 'cased'
    return False


@model('str::to_lowercase')
def m_str_to_lowercase(I, c, s):
    """str::to_lowercase: per-character mapping except U+03A3, which becomes final sigma U+03C2 at the end of a word"""
    chars = chars_of(I, sbytes(s))
    out = []
    for i, ch in enumerate(chars):
        is_sigma = (ch == 0x3A3) if isinstance(ch, int) else I.ctx.decide(zx(ch) == 0x3A3)
        if is_sigma:
            final = _ignorable_then_cased(I, reversed(chars[:i])) and not _ignorable_then_cased(I, chars[i + 1:])
            out.extend(encode_char(I, 0x3C2 if final else 0x3C3))
            continue
        for l in char_lower_seq(I, ch):
            out.extend(encode_char(I, l))
    return StringBuf(out)


@model('str::eq_ignore_ascii_case')
def m_eq_ignore_ascii_case(I, c, a, b):
    x, y = sbytes(a), sbytes(b)
    if len(x) != len(y):
        return False
    for p, q in zip(x, y):
        if not beq(I, ascii_lower_byte(p), ascii_lower_byte(q)):
            return False
    return True


@model('PartialEq::eq@&str', 'PartialEq::eq@str', 'PartialEq::eq@String', 'PartialEq::eq@SmartString',
       'PartialEq::eq@Cow', 'PartialEq::ne@&str')
def m_str_eq(I, c, a, b):
    r = str_eq(I, sbytes(a), sbytes(b))
    return (not r) if c.method == 'ne' else r


@model('Ord::cmp@&str', 'Ord::cmp@str', 'Ord::cmp@String', 'Ord::cmp@SmartString', 'Ord::cmp@Cow')
def m_str_cmp(I, c, a, b):
    return Ordering(seq_cmp(I, sbytes(a), sbytes(b)))


@model('PartialOrd::partial_cmp@&str', 'PartialOrd::partial_cmp@str', 'PartialOrd::partial_cmp@String',
       'PartialOrd::partial_cmp@SmartString', 'PartialOrd::partial_cmp@Cow')
def m_str_pcmp(I, c, a, b):
    return Some(Ordering(seq_cmp(I, sbytes(a), sbytes(b))))


class Hasher(Opaque):
    """recording hasher: the property 'equal values hash alike' is decided on the recorded stream"""
    def __init__(self):
        self.rec = []


@model('Hash::hash@&str', 'Hash::hash@str', 'Hash::hash@String', 'Hash::hash@SmartString', 'Hash::hash@Cow')
def m_str_hash(I, c, s, h):
    hs = deref_all(h)
    hs.rec.append(('str', len(sbytes(s))))
    hs.rec.extend(sbytes(s))
    hs.rec.append(0xFF)
    return UNIT()


@model('Hasher::write_usize', 'Hasher::write_u8', 'Hasher::write_u32', 'Hasher::write_u64', 'Hasher::write_length_prefix')
def m_hasher_write_int(I, c, h, v):
    deref_all(h).rec.append((c.method, deref_all(v)))
    return UNIT()


@model('Hasher::write')
def m_hasher_write(I, c, h, b):
    d = deref_all(b)
    bs = list(d.items) if isinstance(d, VecVal) else list(sbytes(d))
    hs = deref_all(h)
    hs.rec.append(('bytes', len(bs)))
    hs.rec.extend(deref_all(x) for x in bs)
    return UNIT()


@model('Hash::hash@isize', 'Hash::hash@usize', 'Hash::hash@u8', 'Hash::hash@u32', 'Hash::hash@u64')
def m_int_hash(I, c, v, h):
    deref_all(h).rec.append((head(c.self_ty), deref_all(v)))
    return UNIT()


@model('Ord::cmp@isize', 'Ord::cmp@usize', 'Ord::cmp@u8', 'Ord::cmp@u16', 'Ord::cmp@u32', 'Ord::cmp@u64')
def m_int_cmp(I, c, a, b):
    a, b = deref_all(a), deref_all(b)
    if isinstance(a, int) and isinstance(b, int):
        return Ordering((a > b) - (a < b))
    # unsigned comparison of (partly) symbolic values: decided by the solver
    if isinstance(a, int):
        a = z3.BitVecVal(a, b.size())
    if isinstance(b, int):
        b = z3.BitVecVal(b, a.size())
    if I.ctx.decide(a == b):
        return Ordering(0)
    return Ordering(-1 if I.ctx.decide(z3.ULT(a, b)) else 1)


@model('Ord::cmp@Result', 'Ord::cmp@Option', 'PartialOrd::partial_cmp@Result', 'PartialOrd::partial_cmp@Option', 'PartialEq::eq@Result')
def m_sum_cmp(I, c, a, b):
    """derived comparison of Result / Option: by variant in declaration order (Ok < Err, None < Some), then by payload"""
    x, y = deref_all(a), deref_all(b)
    order = {'Ok': 0, 'Err': 1, 'None': 0, 'Some': 1}
    partial = c.method == 'partial_cmp'
    if c.method == 'eq':
        if x.variant != y.variant:
            return False
        if not x.fields:
            return True
        et = c.self_ty[2][0 if x.variant in ('Ok', 'Some') else 1]
        return I.trait_call('PartialEq', 'eq', et, [Ref(x.fields, 0), Ref(y.fields, 0)])
    if x.variant != y.variant:
        o = Ordering((order[x.variant] > order[y.variant]) - (order[x.variant] < order[y.variant]))
        return Some(o) if partial else o
    if not x.fields:
        return Some(Ordering(0)) if partial else Ordering(0)
    et = c.self_ty[2][0 if x.variant in ('Ok', 'Some') else 1]
    return I.trait_call('PartialOrd' if partial else 'Ord', c.method, et, [Ref(x.fields, 0), Ref(y.fields, 0)])


@model('PartialOrd::partial_cmp@isize', 'PartialOrd::partial_cmp@usize')
def m_int_pcmp(I, c, a, b):
    a, b = deref_all(a), deref_all(b)
    return Some(Ordering((a > b) - (a < b)))


@model('Ordering::is_eq')
def m_ord_is_eq(I, c, o):
    return deref_all(o).variant == 'Equal'


@model('Ordering::is_ne')
def m_ord_is_ne(I, c, o):
    return deref_all(o).variant != 'Equal'


# =========================================================================================
# char


def charval(v):
    return deref_all(v)


@model('char::is_ascii_alphanumeric')
def m_is_alnum(I, c, r):
    x = charval(r)
    return b_or(rng(x, 0x30, 0x39), rng(x, 0x41, 0x5A), rng(x, 0x61, 0x7A))


@model('char::is_ascii_lowercase')
def m_is_ascii_lower(I, c, r):
    return rng(charval(r), 0x61, 0x7A)


@model('char::is_ascii_uppercase')
def m_is_ascii_upper(I, c, r):
    return rng(charval(r), 0x41, 0x5A)


@model('char::is_ascii_hexdigit')
def m_is_hexdigit(I, c, r):
    x = charval(r)
    return b_or(rng(x, 0x30, 0x39), rng(x, 0x41, 0x46), rng(x, 0x61, 0x66))


@model('char::is_ascii_digit')
def m_is_digit(I, c, r):
    return rng(charval(r), 0x30, 0x39)


@model('char::is_ascii')
def m_char_is_ascii(I, c, r):
    x = charval(r)
    return x < 0x80 if isinstance(x, int) else z3.ULT(x, 0x80)


@model('char::is_uppercase')
def m_is_uppercase(I, c, r):
    x = charval(r)
    U = unicode_tables()
    if isinstance(x, int):
        return 0x41 <= x <= 0x5A or x in U['upper']
    x = zx(x)
    bd = CHAR_BOUNDS.get(x.get_id())
    # ASCII fast path keeps the formula small for the common case
    if (bd is None or bd[1] < 0x80) and I.ctx.decide(z3.ULT(x, 0x80)):
        return rng(x, 0x41, 0x5A)
    return in_ranges(x, U['upper_r'])


@model('char::is_lowercase')
def m_is_lowercase(I, c, r):
    x = charval(r)
    if isinstance(x, int) and x < 0x80:
        return 0x61 <= x <= 0x7A
    return unicode_class(I, x, 'is_lowercase')


@model('char::to_lowercase')
def m_to_lowercase(I, c, ch):
    return ListIt(char_lower_seq(I, charval(ch)))


@model('char::to_ascii_lowercase')
def m_char_to_ascii_lower(I, c, r):
    x = charval(r)
    if isinstance(x, int):
        return x + 0x20 if 0x41 <= x <= 0x5A else x
    if I.ctx.decide(rng(x, 0x41, 0x5A)):
        return z3.simplify(x + 0x20)
    return x


@model('char::to_ascii_uppercase')
def m_char_to_ascii_upper(I, c, r):
    x = charval(r)
    if isinstance(x, int):
        return x - 0x20 if 0x61 <= x <= 0x7A else x
    if I.ctx.decide(rng(x, 0x61, 0x7A)):
        return z3.simplify(x - 0x20)
    return x


@model('slice::contains')
def m_slice_contains(I, c, sl, item):
    arr = deref_all(sl).items
    it = deref_all(item)
    if isinstance(it, (int,)) or is_sym(it):
        if isinstance(it, int):
            return it in arr
        return z3.Or([zx(it) == a for a in arr])
    # [&str]::contains(&&str)
    ib = sbytes(it)
    for e in arr:
        if str_eq(I, sbytes(e), ib):
            return True
    return False


# =========================================================================================
# String / SmartString / Cow


@model('$S::new', 'Default::default@String', 'Default::default@SmartString')
def m_string_new(I, c):
    return StringBuf()


@model('$S::with_capacity')
def m_string_with_capacity(I, c, n):
    if not isinstance(n, int):
        raise Unsupported('symbolic capacity')
    if n > 2 ** 63 - 1:
        raise Panic('capacity overflow')
    return StringBuf()


@model('From::from@String', 'From::from@SmartString', 'ToOwned::to_owned@str', 'ToString::to_string@str',
       '$S::from', 'Clone::clone@String', 'Clone::clone@SmartString', 'fn:to_owned', 'Cow::into_owned',
       'str::to_owned', 'str::to_string', 'String::from_str')
def m_string_from(I, c, s):
    v = deref_all(s)
    if isinstance(v, Adt) and v.ty == 'ModelQual':      # SmallString: From<ModelQual> of a user-written typed qualifier
        return StringBuf(sbytes(v.fields[0]))
    return StringBuf(sbytes(s))


# ---- a user-written typed qualifier (KnownQualifierKey + From<&str>, SmallString: From<Q>): the key is chosen by the harness (I.mq_key)
@model('const:KnownQualifierKey::KEY@ModelQual')
def m_mq_key(I, c):
    return RStr(list(I.mq_key))


@model('From::from@ModelQual')
def m_mq_from(I, c, s):
    return Adt('ModelQual', None, [RStr(sbytes(s))])


@model('FromStr::from_str@String', 'FromStr::from_str@SmartString')
def m_string_from_str(I, c, s):
    return Ok(StringBuf(sbytes(s)))


@model('From::from@Cow')
def m_cow_from(I, c, s):
    v = deref_all(s)
    if isinstance(v, RStr):
        return Adt('Cow', 'Borrowed', [v])
    if isinstance(v, StringBuf):
        return Adt('Cow', 'Owned', [v])
    raise Unsupported('Cow::from %r' % (v,))


@model('Clone::clone@Cow')
def m_cow_clone(I, c, s):
    v = deref_all(s)
    return Adt('Cow', v.variant, [clone_val(v.fields[0])])


@model('Deref::deref@String', 'Deref::deref@SmartString', 'Deref::deref@Cow', '$S::as_str', 'AsRef::as_ref@String',
       'AsRef::as_ref@SmartString', 'AsRef::as_ref@&str', 'AsRef::as_ref@str', 'AsRef::as_ref@Cow',
       'AsRef::as_ref@&String', 'AsRef::as_ref@&&str', 'Borrow::borrow@String')
def m_str_view(I, c, r):
    return RStr(sbytes(r))


@model('DerefMut::deref_mut@String', 'DerefMut::deref_mut@SmartString', '$S::as_mut_str')
def m_deref_mut(I, c, r):
    return StrMut(strbuf_of(r))


@model('$S::push')
def m_push(I, c, r, ch):
    strbuf_of(r).b.extend(encode_char(I, ch))
    return UNIT()


@model('$S::push_str')
def m_push_str(I, c, r, s):
    strbuf_of(r).b.extend(sbytes(s))
    return UNIT()


@model('$S::clear')
def m_string_clear(I, c, r):
    del strbuf_of(r).b[:]
    return UNIT()


@model('Extend::extend@String', 'Extend::extend@SmartString')
def m_extend(I, c, r, it):
    buf = strbuf_of(r)
    for ch in as_iter(I, it).drain(I):
        buf.b.extend(encode_char(I, ch))
    return UNIT()


@model('fn:swap')
def m_swap(I, c, a, b):
    x, y = a.get(), b.get()
    a.set(y)
    b.set(x)
    return UNIT()


@model('fn:take')
def m_take(I, c, a):
    x = a.get()
    if isinstance(x, StringBuf):
        a.set(StringBuf())
    elif isinstance(x, VecVal):
        a.set(VecVal())
    elif c.margs:
        # the value's own Default (e.g. the crate's derived Default for PurlParts)
        a.set(I.trait_call('Default', 'default', c.margs[0], []))
    else:
        raise Unsupported('mem::take of %r' % (x,))
    return x


@model('fn:replace')
def m_replace(I, c, a, v):
    x = a.get()
    a.set(v)
    return x


@model('fn:drop')
def m_drop(I, c, a):
    return UNIT()


# =========================================================================================
# Option / Result / ControlFlow


@model('Option::ok_or')
def m_ok_or(I, c, o, e):
    return Ok(o.fields[0]) if o.variant == 'Some' else Err(e)


@model('Option::ok_or_else')
def m_ok_or_else(I, c, o, f):
    return Ok(o.fields[0]) if o.variant == 'Some' else Err(I.call_value(f, []))


@model('Option::map')
def m_opt_map(I, c, o, f):
    if o.variant == 'None':
        return o
    return Some(I.call_value(f, [o.fields[0]]))


@model('Option::and_then')
def m_opt_and_then(I, c, o, f):
    if o.variant == 'None':
        return o
    return I.call_value(f, [o.fields[0]])


@model('Option::filter')
def m_opt_filter(I, c, o, f):
    if o.variant == 'None':
        return o
    keep = I.call_value(f, [Ref([o.fields[0]], 0)])
    return o if I.ctx.decide(keep) else NONE_()


@model('Option::is_some')
def m_is_some(I, c, o):
    return deref_all(o).variant == 'Some'


@model('Option::is_none')
def m_is_none(I, c, o):
    return deref_all(o).variant == 'None'


@model('Option::unwrap', 'Result::unwrap', 'Option::expect', 'Result::expect')
def m_unwrap(I, c, o, *msg):
    if o.variant in ('None', 'Err'):
        raise Panic('called `%s::%s()` on %s value' % (o.ty, c.method, o.variant))
    return o.fields[0]


@model('Result::unwrap_err', 'Result::expect_err')
def m_unwrap_err(I, c, o, *msg):
    if o.variant == 'Ok':
        raise Panic('called `Result::unwrap_err()` on an `Ok` value')
    return o.fields[0]


@model('Option::unwrap_or_default')
def m_unwrap_or_default(I, c, o):
    if o.variant == 'Some':
        return o.fields[0]
    t = c.self_ty[2][0] if c.self_ty and c.self_ty[2] else None
    if t == ('adt', 'bool', ()):
        return False
    raise Unsupported('unwrap_or_default for ' + show(c.self_ty))


@model('Option::unwrap_or')
def m_unwrap_or(I, c, o, d):
    return o.fields[0] if o.variant == 'Some' else d


@model('Option::transpose')
def m_transpose(I, c, o):
    if o.variant == 'None':
        return Ok(NONE_())
    r = o.fields[0]
    return Ok(Some(r.fields[0])) if r.variant == 'Ok' else r


@model('Option::copied', 'Option::cloned')
def m_copied(I, c, o):
    if o.variant == 'None':
        return o
    return Some(clone_val(deref_all(o.fields[0])))


@model('Option::as_deref')
def m_as_deref(I, c, o):
    o = deref_all(o)
    if o.variant == 'None':
        return o
    return Some(RStr(sbytes(o.fields[0])))


@model('Option::as_ref')
def m_opt_as_ref(I, c, o):
    v = deref_all(o)
    if v.variant == 'None':
        return NONE_()
    return Some(Ref(v.fields, 0))


@model('Result::ok')
def m_res_ok(I, c, r):
    return Some(r.fields[0]) if r.variant == 'Ok' else NONE_()


@model('Result::err')
def m_res_err(I, c, r):
    return Some(r.fields[0]) if r.variant == 'Err' else NONE_()


@model('Result::is_ok')
def m_res_is_ok(I, c, r):
    return deref_all(r).variant == 'Ok'


@model('Result::is_err')
def m_res_is_err(I, c, r):
    return deref_all(r).variant == 'Err'


@model('Result::map_err')
def m_map_err(I, c, r, f):
    if r.variant == 'Ok':
        return r
    return Err(I.call_value(f, [r.fields[0]]))


@model('Result::map')
def m_res_map(I, c, r, f):
    if r.variant == 'Err':
        return r
    return Ok(I.call_value(f, [r.fields[0]]))


@model('Result::and_then')
def m_res_and_then(I, c, r, f):
    if r.variant == 'Err':
        return r
    return I.call_value(f, [r.fields[0]])


@model('Try::branch')
def m_try_branch(I, c, r):
    if r.ty == 'Result':
        if r.variant == 'Ok':
            return Adt('ControlFlow', 'Continue', [r.fields[0]])
        return Adt('ControlFlow', 'Break', [Err(r.fields[0])])
    if r.ty == 'Option':
        if r.variant == 'Some':
            return Adt('ControlFlow', 'Continue', [r.fields[0]])
        return Adt('ControlFlow', 'Break', [NONE_()])
    raise Unsupported('Try::branch on %r' % (r,))


@model('FromResidual::from_residual')
def m_from_residual(I, c, r):
    if r.ty == 'Option':
        return NONE_()
    # Result<_, F>: From<E> conversion of the error
    e = r.fields[0]
    src = c.trait[2][0]          # Result<Infallible, E>
    dst = c.self_ty              # Result<T, F>
    et, ft = src[2][1], dst[2][1]
    if et == ft:
        return Err(e)
    return Err(I.trait_call('From', 'from', ft, [e], (et,)))


# =========================================================================================
# closures / fn traits


@model('FnOnce::call_once', 'FnMut::call_mut', 'Fn::call')
def m_call_closure(I, c, f, args):
    return I.call_value(f, list(args.fields))


# =========================================================================================
# Vec / slices


def vec_of(v):
    v = deref_all(v)
    if isinstance(v, VecVal):
        return v
    if isinstance(v, RStr):
        # `str::as_bytes()` is the same value as the str in this encoding: a read-only byte slice
        return VecVal(list(v.b))
    raise Unsupported('not a Vec: %r' % (v,))


@model('Vec::new', 'Default::default@Vec')
def m_vec_new(I, c):
    return VecVal()


@model('Vec::with_capacity')
def m_vec_with_capacity(I, c, n):
    return VecVal()


@model('Vec::insert')
def m_vec_insert(I, c, r, idx, item):
    v = vec_of(r)
    if idx > len(v.items):
        raise Panic('insertion index (is %d) should be <= len (is %d)' % (idx, len(v.items)))
    v.items.insert(idx, item)
    return UNIT()


@model('Vec::push')
def m_vec_push(I, c, r, item):
    vec_of(r).items.append(item)
    return UNIT()


@model('Vec::remove')
def m_vec_remove(I, c, r, idx):
    v = vec_of(r)
    if idx >= len(v.items):
        raise Panic('removal index (is %d) should be < len (is %d)' % (idx, len(v.items)))
    return v.items.pop(idx)


@model('Vec::pop')
def m_vec_pop(I, c, r):
    v = vec_of(r)
    return Some(v.items.pop()) if v.items else NONE_()


@model('Vec::len', 'slice::len')
def m_vec_len(I, c, r):
    return len(vec_of(r).items)


@model('Vec::is_empty', 'slice::is_empty')
def m_vec_is_empty(I, c, r):
    return len(vec_of(r).items) == 0


@model('Vec::clear')
def m_vec_clear(I, c, r):
    del vec_of(r).items[:]
    return UNIT()


@model('Vec::reserve', 'Vec::reserve_exact')
def m_vec_reserve(I, c, r, n):
    v = vec_of(r)
    if not isinstance(n, int):
        raise Unsupported('symbolic reserve')
    # (QualifierKey, SmallString) is 48 bytes; capacity overflow is a documented panic of Vec::reserve
    if len(v.items) + n > (2 ** 63 - 1) // 48:
        raise Panic('capacity overflow')
    return UNIT()


@model('Vec::capacity')
def m_vec_capacity(I, c, r):
    return len(vec_of(r).items)


@model('Index::index@Vec', 'IndexMut::index_mut@Vec', 'Index::index@slice', 'IndexMut::index_mut@slice')
def m_vec_index(I, c, r, idx):
    v = vec_of(r)
    if isinstance(deref_all(idx), Adt):
        lo, hi = _range_of(idx, len(v.items))
        if not (isinstance(lo, int) and isinstance(hi, int)):
            raise Unsupported('symbolic slice bounds')
        if lo > hi or hi > len(v.items):
            raise Panic('range end index %d out of range for slice of length %d' % (hi, len(v.items)))
        return VecVal(v.items[lo:hi])
    if not isinstance(idx, int):
        raise Unsupported('symbolic Vec index')
    if idx >= len(v.items):
        raise Panic('index out of bounds: the len is %d but the index is %d' % (len(v.items), idx))
    return Ref(v.items, idx)


@model('Deref::deref@Vec', 'DerefMut::deref_mut@Vec', 'Vec::as_slice', 'Vec::as_mut_slice')
def m_vec_deref(I, c, r):
    return r


@model('slice::iter', 'slice::iter_mut', 'Vec::iter')
def m_slice_iter(I, c, r):
    d = deref_all(r)
    if isinstance(d, (RStr, StringBuf)) and c.method == 'iter':
        # `str::as_bytes()` is the same value as the str in this encoding: iterate over its bytes by reference
        return VecRefIt(VecVal(list(sbytes(d))))
    return VecRefIt(vec_of(r))


@model('slice::split_at', 'slice::split_at_mut')
def m_slice_split_at(I, c, r, n):
    v = vec_of(r)
    if not isinstance(n, int):
        raise Unsupported('symbolic split_at')
    if n > len(v.items):
        raise Panic('mid > len')
    # two views: elements are shared objects, so reads and in-place edits of elements are seen through both
    return Tup(VecVal(v.items[:n]), VecVal(v.items[n:]))


@model('Vec::retain', 'Vec::retain_mut')
def m_vec_retain(I, c, r, f):
    v = vec_of(r)
    keep = []
    for i in range(len(v.items)):
        if I.ctx.decide(I.call_value(f, [Ref(v.items, i)])):
            keep.append(v.items[i])
    v.items[:] = keep
    return UNIT()


@model('slice::binary_search_by')
def m_bsearch(I, c, sl, f):
    """transcription of core::slice::binary_search_by (rust 1.8x): loop-halving variant"""
    v = vec_of(sl).items
    size = len(v)
    if size == 0:
        return Err(0)
    base = 0
    while size > 1:
        half = size // 2
        mid = base + half
        o = I.call_value(f, [Ref(v, mid)])
        if o.variant != 'Greater':
            base = mid
        size -= half
    o = I.call_value(f, [Ref(v, base)])
    if o.variant == 'Equal':
        return Ok(base)
    return Err(base + (1 if o.variant == 'Less' else 0))


@model('slice::sort_unstable_by', 'slice::sort_by')
def m_sort_by(I, c, sl, f):
    """insertion sort driven by the crate's comparator (any correct sort yields the same result when the
    comparator is a strict weak order without ties; ties are reported as unsupported for the unstable sort
    only if elements differ -- they cannot here because keys of a map are distinct)"""
    v = vec_of(sl).items
    for i in range(1, len(v)):
        j = i
        while j > 0:
            o = I.call_value(f, [Ref(v, j - 1), Ref(v, j)])
            if o.variant == 'Greater':
                v[j - 1], v[j] = v[j], v[j - 1]
                j -= 1
            else:
                break
    return UNIT()


def elem_types(t):
    if t[0] == 'adt' and t[1] == 'Vec':
        return t[2][0]
    if t[0] in ('slice', 'arr'):
        return t[1]
    raise Unsupported('element type of ' + show(t))


@model('PartialEq::eq@Vec', 'PartialEq::eq@slice')
def m_vec_eq(I, c, a, b):
    x, y = vec_of(a).items, vec_of(b).items
    if len(x) != len(y):
        return False
    et = elem_types(c.self_ty)
    for i in range(len(x)):
        if not I.ctx.decide(I.trait_call('PartialEq', 'eq', et, [Ref(x, i), Ref(y, i)])):
            return False
    return True


@model('Ord::cmp@Vec', 'Ord::cmp@slice')
def m_vec_cmp(I, c, a, b):
    x, y = vec_of(a).items, vec_of(b).items
    et = elem_types(c.self_ty)
    for i in range(min(len(x), len(y))):
        o = I.trait_call('Ord', 'cmp', et, [Ref(x, i), Ref(y, i)])
        if o.variant != 'Equal':
            return o
    return Ordering((len(x) > len(y)) - (len(x) < len(y)))


@model('PartialOrd::partial_cmp@Vec', 'PartialOrd::partial_cmp@slice')
def m_vec_pcmp(I, c, a, b):
    x, y = vec_of(a).items, vec_of(b).items
    et = elem_types(c.self_ty)
    for i in range(min(len(x), len(y))):
        o = I.trait_call('PartialOrd', 'partial_cmp', et, [Ref(x, i), Ref(y, i)])
        if o.variant == 'None' or o.fields[0].variant != 'Equal':
            return o
    return Some(Ordering((len(x) > len(y)) - (len(x) < len(y))))


@model('Hash::hash@Vec', 'Hash::hash@slice')
def m_vec_hash(I, c, a, h):
    x = vec_of(a).items
    deref_all(h).rec.append(('len', len(x)))
    et = elem_types(c.self_ty)
    for i in range(len(x)):
        I.trait_call('Hash', 'hash', et, [Ref(x, i), h], margs=c.margs)
    return UNIT()


@model('PartialEq::eq@tuple')
def m_tuple_eq(I, c, a, b):
    x, y = deref_all(a).fields, deref_all(b).fields
    for i, et in enumerate(c.self_ty[1]):
        if not I.ctx.decide(I.trait_call('PartialEq', 'eq', et, [Ref(x, i), Ref(y, i)])):
            return False
    return True


@model('Ord::cmp@tuple')
def m_tuple_cmp(I, c, a, b):
    x, y = deref_all(a).fields, deref_all(b).fields
    for i, et in enumerate(c.self_ty[1]):
        o = I.trait_call('Ord', 'cmp', et, [Ref(x, i), Ref(y, i)])
        if o.variant != 'Equal':
            return o
    return Ordering(0)


@model('PartialOrd::partial_cmp@tuple')
def m_tuple_pcmp(I, c, a, b):
    x, y = deref_all(a).fields, deref_all(b).fields
    for i, et in enumerate(c.self_ty[1]):
        o = I.trait_call('PartialOrd', 'partial_cmp', et, [Ref(x, i), Ref(y, i)])
        if o.variant == 'None' or o.fields[0].variant != 'Equal':
            return o
    return Some(Ordering(0))


@model('Hash::hash@tuple')
def m_tuple_hash(I, c, a, h):
    x = deref_all(a).fields
    for i, et in enumerate(c.self_ty[1]):
        I.trait_call('Hash', 'hash', et, [Ref(x, i), h], margs=c.margs)
    return UNIT()


@model('Clone::clone@Vec', 'Clone::clone@HashMap', 'Clone::clone@tuple', 'Clone::clone@Option')
def m_struct_clone(I, c, r):
    return clone_val(deref_all(r))


# blanket impls on references: forward to the referent
@model('PartialEq::eq@&', 'PartialOrd::partial_cmp@&', 'Ord::cmp@&', 'Hash::hash@&', 'Display::fmt@&', 'Debug::fmt@&')
def m_ref_forward(I, c, a, *rest):
    inner = c.self_ty[2]
    tr = c.trait
    args = [a.get()] + [(r.get() if (i == 0 and tr[1] in ('PartialEq', 'PartialOrd', 'Ord')) else r) for i, r in enumerate(rest)]
    targs = tr[2]
    if tr[1] in ('PartialEq', 'PartialOrd') and targs and targs[0][0] == 'ref':
        targs = (targs[0][2],)
    return I.trait_call(tr[1], c.method, inner, args, targs, margs=c.margs)


@model('AsRef::as_ref@&', 'Deref::deref@&')
def m_ref_asref(I, c, a):
    inner = c.self_ty[2]
    return I.trait_call(c.trait[1], c.method, inner, [a.get()], c.trait[2])


# =========================================================================================
# HashMap<SmallString, Cow<str>>  (iteration order = fork over all permutations)


def map_of(v):
    v = deref_all(v)
    if isinstance(v, MapVal):
        return v
    raise Unsupported('not a HashMap: %r' % (v,))


def map_find(I, m, key):
    kb = sbytes(key)
    for i, (k, _) in enumerate(m.entries):
        if str_eq(I, sbytes(k), kb):
            return i
    return None


def permute(I, n):
    """a permutation of range(n) chosen by the solver-visible choice points
    (identity while a harness reads a map only as a set: `I.fixed_order`)"""
    if getattr(I, 'fixed_order', False):
        return list(range(n))
    rest = list(range(n))
    out = []
    while rest:
        i = I.ctx.choice(len(rest), 'perm')
        out.append(rest.pop(i))
    return out


def map_iter(I, m, by_ref):
    order = permute(I, len(m.entries))
    if by_ref:
        return ListIt([Tup(Ref(m.entries[i], 0), Ref(m.entries[i], 1)) for i in order])
    return ListIt([Tup(m.entries[i][0], m.entries[i][1]) for i in order])


@model('HashMap::new', 'HashMap::with_capacity', 'Default::default@HashMap')
def m_map_new(I, c, *a):
    return MapVal()


@model('HashMap::insert')
def m_map_insert(I, c, r, k, v):
    m = map_of(r)
    i = map_find(I, m, k)
    if i is not None:
        old = m.entries[i][1]
        m.entries[i][1] = v
        return Some(old)
    m.entries.append([k, v])
    return NONE_()


@model('HashMap::get')
def m_map_get(I, c, r, k):
    m = map_of(r)
    i = map_find(I, m, k)
    return NONE_() if i is None else Some(Ref(m.entries[i], 1))


@model('HashMap::get_mut')
def m_map_get_mut(I, c, r, k):
    return m_map_get(I, c, r, k)


@model('HashMap::contains_key')
def m_map_contains(I, c, r, k):
    return map_find(I, map_of(r), k) is not None


@model('HashMap::remove')
def m_map_remove(I, c, r, k):
    m = map_of(r)
    i = map_find(I, m, k)
    if i is None:
        return NONE_()
    return Some(m.entries.pop(i)[1])


@model('HashMap::len')
def m_map_len(I, c, r):
    return len(map_of(r).entries)


@model('HashMap::is_empty')
def m_map_is_empty(I, c, r):
    return len(map_of(r).entries) == 0


@model('HashMap::iter')
def m_map_iter(I, c, r):
    return map_iter(I, map_of(r), True)


@model('HashMap::keys')
def m_map_keys(I, c, r):
    m = map_of(r)
    return ListIt([Ref(m.entries[i], 0) for i in permute(I, len(m.entries))])


# =========================================================================================
# fmt


class Formatter(Opaque):
    """a fmt::Formatter: the output sink and the flags a caller can set in a format string (`{:#}`, `{:5}`, `{:+}`, ...)"""
    def __init__(self, sink=None, alternate=False, width=None, precision=None, sign_plus=False, zero_pad=False):
        self.out = sink if sink is not None else []
        self.alt, self.width, self.precision, self.sign_plus, self.zero_pad = alternate, width, precision, sign_plus, zero_pad


@model('Formatter::alternate', 'Formatter::sign_plus', 'Formatter::sign_minus', 'Formatter::sign_aware_zero_pad')
def m_fmt_flag(I, c, f):
    f = deref_all(f)
    return {'alternate': f.alt, 'sign_plus': f.sign_plus, 'sign_minus': False, 'sign_aware_zero_pad': f.zero_pad}[c.method]


@model('Formatter::align')
def m_fmt_align(I, c, f):
    a = getattr(deref_all(f), 'align', None)
    return NONE_() if a is None else Some(Adt('Alignment', a, []))


@model('Formatter::fill')
def m_fmt_fill(I, c, f):
    return getattr(deref_all(f), 'fill', 0x20)


@model('Formatter::width', 'Formatter::precision')
def m_fmt_width(I, c, f):
    v = getattr(deref_all(f), c.method)
    return NONE_() if v is None else Some(v)


class FmtArgs(Opaque):
    def __init__(self, tmpl, args):
        self.tmpl, self.args = tmpl, args


@model('Arguments::new')
def m_args_new(I, c, tmpl, args):
    return FmtArgs(sbytes(tmpl), deref_all(args).items)


@model('Arguments::from_str', 'Arguments::new_const')
def m_args_from_str(I, c, s):
    v = deref_all(s)
    if isinstance(v, VecVal):
        b = ()
        for piece in v.items:
            b += sbytes(piece)
    else:
        b = sbytes(s)
    return FmtArgs(None, [b])


class FmtArg(Opaque):
    def __init__(self, kind, ty, val):
        self.kind, self.ty, self.val = kind, ty, val


@model('Argument::new_display')
def m_new_display(I, c, r):
    return FmtArg('Display', c.margs[0], r)


@model('Argument::new_lower_hex')
def m_new_lower_hex(I, c, r):
    return FmtArg('LowerHex', c.margs[0], r)


@model('Argument::new_upper_hex')
def m_new_upper_hex(I, c, r):
    return FmtArg('UpperHex', c.margs[0], r)


@model('Argument::new_debug')
def m_new_debug(I, c, r):
    return FmtArg('Debug', c.margs[0], r)


def fmt_write(I, f, a):
    if a.tmpl is None:
        f.out.extend(a.args[0])
        return Ok(UNIT())
    t, i, ai = a.tmpl, 0, 0
    while t[i] != 0:
        x = t[i]
        if x < 0x80:
            f.out.extend(t[i + 1:i + 1 + x])
            i += 1 + x
        elif x == 0xC0:
            arg = a.args[ai]
            ai += 1
            i += 1
            r = I.trait_call(arg.kind, 'fmt', arg.ty, [arg.val, Ref([f], 0)])
            if r.variant != 'Ok':
                return r
        elif x == 0xC3:
            # placeholder with flags (u32 LE: fill in the low 21 bits, bit 24 = zero padding) and width (u16 LE)
            flags = t[i + 1] | t[i + 2] << 8 | t[i + 3] << 16 | t[i + 4] << 24
            width = t[i + 5] | t[i + 6] << 8
            i += 7
            arg = a.args[ai]
            ai += 1
            if arg.kind not in ('LowerHex', 'UpperHex') or not (flags >> 24 & 1) or flags >> 21 & 7:
                raise Unsupported('format placeholder with flags 0x%08x for %s' % (flags, arg.kind))
            v = deref_all(arg.val)
            bits = {'u8': 8, 'u16': 16, 'u32': 32, 'u64': 64, 'usize': 64}.get(show(arg.ty))
            if bits is None:
                raise Unsupported('hex formatting of ' + show(arg.ty))
            digits = []
            for k in range(bits // 4 - 1, -1, -1):
                if isinstance(v, int):
                    nib = v >> (4 * k) & 15
                    digits.append((b'0123456789abcdef' if arg.kind == 'LowerHex' else b'0123456789ABCDEF')[nib])
                else:
                    nib = z3.Extract(7, 0, z3.ZeroExt(8, z3.LShR(v, 4 * k) & 15)) if v.size() >= 8 else None
                    nib = z3.Extract(7, 0, z3.LShR(zx(v, max(v.size(), 8)), 4 * k)) & 15
                    digits.append(z3.simplify(z3.If(z3.ULT(nib, 10), nib + 0x30, nib + (0x57 if arg.kind == 'LowerHex' else 0x37))))
            # leading zeros beyond the requested width are dropped only when they are certain (concrete values); a symbolic value keeps
            # the full width of its type when that equals the requested width
            if isinstance(v, int):
                while len(digits) > max(width, 1) and digits[0] == 0x30:
                    digits.pop(0)
            elif len(digits) != width:
                raise Unsupported('hex formatting of a symbolic value wider than the requested width')
            f.out.extend(digits)
        else:
            raise Unsupported('format template opcode 0x%02x' % x)
    return Ok(UNIT())


@model('Formatter::write_fmt', 'fn:write')
def m_fmt_write_fmt(I, c, f, a):
    return fmt_write(I, deref_all(f), a)


@model('Formatter::write_str', 'Formatter::pad')
def m_fmt_write_str(I, c, f, s):
    deref_all(f).out.extend(sbytes(s))
    return Ok(UNIT())


@model('Formatter::write_char')
def m_fmt_write_char(I, c, f, ch):
    deref_all(f).out.extend(encode_char(I, ch))
    return Ok(UNIT())


@model('Write::write_fmt@String', 'Write::write_fmt@SmartString')
def m_string_write_fmt(I, c, r, a):
    buf = strbuf_of(r)
    f = Formatter(buf.b)
    return fmt_write(I, f, a)


@model('Write::write_str@String', 'Write::write_str@SmartString')
def m_string_write_str(I, c, r, s):
    strbuf_of(r).b.extend(sbytes(s))
    return Ok(UNIT())


@model('Write::write_char@String', 'Write::write_char@SmartString')
def m_string_write_char(I, c, r, ch):
    strbuf_of(r).b.extend(encode_char(I, ch))
    return Ok(UNIT())


@model('Display::fmt@str', 'Display::fmt@String', 'Display::fmt@SmartString', 'Display::fmt@Cow')
def m_display_str(I, c, s, f):
    deref_all(f).out.extend(sbytes(s))
    return Ok(UNIT())


@model('Display::fmt@char')
def m_display_char(I, c, ch, f):
    deref_all(f).out.extend(encode_char(I, deref_all(ch)))
    return Ok(UNIT())


@model('Debug::fmt@str', 'Debug::fmt@String', 'Debug::fmt@SmartString', 'Debug::fmt@Cow')
def m_debug_str(I, c, s, f):
    # only used in panic messages; content is not observed
    out = deref_all(f).out
    out.append(0x22)
    out.extend(sbytes(s))
    out.append(0x22)
    return Ok(UNIT())


@model('fn:format')
def m_format(I, c, a):
    f = Formatter()
    r = fmt_write(I, f, a)
    if r.variant != 'Ok':
        raise Panic('a formatting trait implementation returned an error')
    return StringBuf(f.out)


@model('ToString::to_string')
def m_to_string(I, c, r):
    f = Formatter()
    res = I.trait_call('Display', 'fmt', c.self_ty, [r, Ref([f], 0)])
    if res.variant != 'Ok':
        raise Panic('a Display implementation returned an error unexpectedly')
    return StringBuf(f.out)


@model('fn:panic_fmt')
def m_panic_fmt(I, c, a):
    msg = ''
    if a.tmpl is None:
        msg = bytes(x for x in a.args[0] if isinstance(x, int)).decode('utf8', 'replace')
    else:
        t, i = a.tmpl, 0
        while t[i] != 0:
            x = t[i]
            if x < 0x80:
                msg += bytes(t[i + 1:i + 1 + x]).decode('utf8', 'replace')
                i += 1 + x
            else:
                msg += '{}'
                i += 1
    raise Panic(msg)


@model('fn:panic', 'fn:panic_str', 'fn:panic_display')
def m_panic(I, c, s, *a):
    raise Panic(bytes(x for x in sbytes(s) if isinstance(x, int)).decode('utf8', 'replace'))


@model('fn:unreachable_display')
def m_unreachable_display(I, c, s):
    raise Panic('internal error: entered unreachable code')


@model('AsDynError::as_dyn_error')
def m_as_dyn_error(I, c, r):
    return r


@model('DisplayAsDisplay::as_display')
def m_as_display(I, c, r):
    # thiserror: impl<T: Display> DisplayAsDisplay for &T { fn as_display(&self) -> Self { *self } }
    return r.get()


@model('usize::saturating_sub', 'u64::saturating_sub', 'u32::saturating_sub')
def m_saturating_sub(I, c, a, b):
    if not (isinstance(a, int) and isinstance(b, int)):
        raise Unsupported('symbolic saturating_sub')
    return max(0, a - b)


@model('usize::saturating_add')
def m_saturating_add(I, c, a, b):
    return min(2 ** 64 - 1, a + b)


@model('usize::checked_sub')
def m_checked_sub(I, c, a, b):
    return Some(a - b) if a >= b else NONE_()


@model('usize::wrapping_sub')
def m_wrapping_sub(I, c, a, b):
    return (a - b) % 2 ** 64


@model('Formatter::debug_tuple_field1_finish', 'Formatter::debug_struct_field1_finish',
       'Formatter::debug_struct_field2_finish', 'Formatter::debug_struct_field5_finish',
       'Formatter::debug_tuple_field2_finish')
def m_debug_finish(I, c, f, name, *rest):
    # Debug output is outside every property; emit the type name only
    deref_all(f).out.extend(sbytes(name))
    return Ok(UNIT())


# =========================================================================================
# percent_encoding 2.3


@model('const:percent_encoding::CONTROLS', 'const:CONTROLS')
def m_controls(I, c):
    return Ref([frozenset(list(range(0x20)) + [0x7F])], 0)


@model('const:percent_encoding::NON_ALPHANUMERIC', 'const:NON_ALPHANUMERIC')
def m_non_alnum(I, c):
    s = set(range(0x80)) - set(range(0x30, 0x3A)) - set(range(0x41, 0x5B)) - set(range(0x61, 0x7B))
    return Ref([frozenset(s)], 0)


@model('AsciiSet::add')
def m_aset_add(I, c, r, b):
    s = deref_all(r)
    if not isinstance(b, int) or b >= 0x80:
        raise Unsupported('AsciiSet::add of non-constant / non-ASCII byte')
    return frozenset(s | {b})


@model('AsciiSet::remove')
def m_aset_remove(I, c, r, b):
    s = deref_all(r)
    return frozenset(s - {b})


class PercentEncode(Opaque):
    def __init__(self, b, aset):
        self.b, self.aset = b, aset


@model('fn:utf8_percent_encode', 'fn:percent_encode')
def m_pe(I, c, s, aset):
    return PercentEncode(sbytes(s), deref_all(aset))


def hexdigit_upper(n):
    """nibble (BitVec 8, < 16) -> ASCII upper-case hex digit"""
    return z3.If(z3.ULT(n, 10), n + 0x30, n + 0x37)


@model('Display::fmt@PercentEncode')
def m_pe_display(I, c, r, f):
    pe = deref_all(r)
    out = deref_all(f).out
    HX = b'0123456789ABCDEF'
    esc_tt = ((1 << 256) - 1) & ~((1 << 128) - 1)
    for a in pe.aset:
        esc_tt |= 1 << a
    for x in pe.b:
        if isinstance(x, int):
            if x >= 0x80 or x in pe.aset:
                out.extend([0x25, HX[x >> 4], HX[x & 15]])
            else:
                out.append(x)
        else:
            esc = I.ctx.decide_pred(x, esc_tt)
            if esc:
                out.extend([0x25, z3.simplify(hexdigit_upper(z3.LShR(x, 4))), z3.simplify(hexdigit_upper(x & 15))])
            else:
                out.append(x)
    return Ok(UNIT())


class PercentDecode(Opaque):
    def __init__(self, b):
        self.b = b


@model('fn:percent_decode_str', 'fn:percent_decode')
def m_pd(I, c, s):
    return PercentDecode(sbytes(s))


def hexval(I, x):
    """value of an ASCII hex digit as BitVec(8) (or int); None if not a hex digit (forks)"""
    if isinstance(x, int):
        if 0x30 <= x <= 0x39: return x - 0x30
        if 0x41 <= x <= 0x46: return x - 0x41 + 10
        if 0x61 <= x <= 0x66: return x - 0x61 + 10
        return None
    if in_range(I, x, 0x30, 0x39): return x - 0x30
    if in_range(I, x, 0x41, 0x46): return x - 0x37
    if in_range(I, x, 0x61, 0x66): return x - 0x57
    return None


def percent_decode(I, s):
    """percent_encoding::percent_decode: '%' followed by two hex digits is decoded, anything else kept"""
    out, i, changed = [], 0, False
    n = len(s)
    while i < n:
        x = s[i]
        if i + 2 < n + 0 and i + 2 <= n - 1 and beq(I, x, 0x25):
            h = hexval(I, s[i + 1])
            l = hexval(I, s[i + 2]) if h is not None else None
            if h is not None and l is not None:
                v = h * 16 + l
                out.append(v if isinstance(v, int) else z3.simplify(v))
                i += 3
                changed = True
                continue
        out.append(x)
        i += 1
    return out, changed


@model('PercentDecode::decode_utf8')
def m_decode_utf8(I, c, pd):
    out, changed = percent_decode(I, pd.b)
    if not utf8_valid(I, out):
        return Err(Adt('Utf8Error', None, []))
    if changed:
        return Ok(Adt('Cow', 'Owned', [StringBuf(out)]))
    return Ok(Adt('Cow', 'Borrowed', [RStr(out)]))


@model('PercentDecode::decode_utf8_lossy')
def m_decode_utf8_lossy(I, c, pd):
    out, changed = percent_decode(I, pd.b)
    if not utf8_valid(I, out):
        raise Unsupported('lossy decoding of invalid UTF-8 (replacement characters not modelled)')
    return Adt('Cow', 'Owned', [StringBuf(out)]) if changed else Adt('Cow', 'Borrowed', [RStr(out)])


# =========================================================================================
# hex 0.4


@model('ToHex::encode_hex')
def m_encode_hex(I, c, r):
    v = deref_all(r)
    data = v.items if isinstance(v, VecVal) else list(sbytes(v))
    HX = b'0123456789abcdef'
    out = []
    for x in data:
        if isinstance(x, int):
            out.extend([HX[x >> 4], HX[x & 15]])
        else:
            def lo(n):
                return z3.simplify(z3.If(z3.ULT(n, 10), n + 0x30, n + 0x57))
            out.extend([lo(z3.LShR(x, 4)), lo(x & 15)])
    return StringBuf(out)


@model('FromHex::from_hex@Vec')
def m_from_hex(I, c, s):
    b = sbytes(s)
    if len(b) % 2 != 0:
        return Err(Adt('FromHexError', 'OddLength', []))
    out = []
    for i in range(0, len(b), 2):
        h = hexval(I, b[i])
        if h is None:
            return Err(Adt('FromHexError', 'InvalidHexCharacter', [b[i], i]))
        l = hexval(I, b[i + 1])
        if l is None:
            return Err(Adt('FromHexError', 'InvalidHexCharacter', [b[i + 1], i + 1]))
        v = h * 16 + l
        out.append(v if isinstance(v, int) else z3.simplify(v))
    return Ok(VecVal(out))


# =========================================================================================
# phf + unicase


@model('UniCase::ascii', 'UniCase::new', 'UniCase::unicode')
def m_unicase(I, c, s):
    return Adt('UniCase', None, [s])


def unicase_fold_seq(I, ch):
    """unicase's Unicode case folding of one scalar value (table dumped from the real crate)"""
    U = unicode_tables()
    if isinstance(ch, int):
        if ch < 0x80:
            return [ch + 0x20 if 0x41 <= ch <= 0x5A else ch]
        return list(U['fold'].get(ch, [ch]))
    ch = zx(ch)
    if I.ctx.decide(z3.ULT(ch, 0x80)):
        if I.ctx.decide(rng(ch, 0x41, 0x5A)):
            return [z3.simplify(ch + 0x20)]
        return [ch]
    # non-ASCII: fork per folding target that can matter (anything that folds into ASCII) else opaque
    into_ascii = {k: v for k, v in U['fold'].items() if any(x < 0x80 for x in v)}
    for k, v in sorted(into_ascii.items()):
        if I.ctx.decide(ch == k):
            return list(v)
    # other characters fold to non-ASCII sequences, which can never equal an ASCII key; keep them distinct
    return [ch]


def _unicase_folded(I, u):
    out = []
    for ch in chars_of(I, list(sbytes(deref_all(u).fields[0]))):
        out.extend(unicase_fold_seq(I, ch))
    return [zx(x) if not isinstance(x, int) else x for x in out]


@model('Ord::cmp@UniCase', 'PartialOrd::partial_cmp@UniCase', 'PartialEq::eq@UniCase')
def m_unicase_cmp(I, c, a, b):
    """comparison of the case-folded texts.  Characters that fold into ASCII are folded exactly (table from the real crate); a decision
    that hinges on a non-ASCII character whose folding is not in the table is reported as unsupported rather than guessed"""
    x, y = _unicase_folded(I, a), _unicase_folded(I, b)

    def ascii_(v):
        return v < 0x80 if isinstance(v, int) else I.ctx.decide(z3.ULT(v, 0x80))
    res = None
    for p, q in zip(x, y):
        same = (p == q) if isinstance(p, int) and isinstance(q, int) else I.ctx.decide((z3.BitVecVal(p, 32) if isinstance(p, int) else p) == (z3.BitVecVal(q, 32) if isinstance(q, int) else q))
        if same:
            continue
        pa, qa = ascii_(p), ascii_(q)
        if pa and qa:
            lt = (p < q) if isinstance(p, int) and isinstance(q, int) else I.ctx.decide(z3.ULT(z3.BitVecVal(p, 32) if isinstance(p, int) else p, z3.BitVecVal(q, 32) if isinstance(q, int) else q))
            res = -1 if lt else 1
        elif c.method == 'eq' and (pa or qa):
            res = 1          # a character that does not fold into ASCII never equals an ASCII character
        else:
            raise Unsupported('UniCase comparison decided by a non-ASCII character whose case folding is not tabulated')
        break
    if res is None:
        res = (len(x) > len(y)) - (len(x) < len(y))
    if c.method == 'eq':
        return res == 0
    return Some(Ordering(res)) if c.method == 'partial_cmp' else Ordering(res)


@model('Map::get')
def m_phf_get(I, c, mp, key):
    """phf::Map::get with UniCase keys: the entry whose key is UniCase-equal to the query (perfect hashing trusted)"""
    mapv = deref_all(mp)
    entries = vec_of(mapv.fields[2]).items
    kv = deref_all(key)
    if isinstance(kv, (RStr, StringBuf)):
        # plain &str keys: exact match
        q = sbytes(kv)
        for e in entries:
            if str_eq(I, sbytes(e.fields[0]), q):
                return Some(Ref(e.fields, 1))
        return NONE_()
    q = sbytes(kv.fields[0])
    qf = []
    for ch in chars_of(I, q):
        qf.extend(unicase_fold_seq(I, ch))
    for e in entries:
        kb = sbytes(e.fields[0].fields[0])
        kf = [x + 0x20 if 0x41 <= x <= 0x5A else x for x in kb]
        if len(kf) != len(qf):
            continue
        if all(beq(I, zx(x), y) for x, y in zip(qf, kf)):
            return Some(Ref(e.fields, 1))
    return NONE_()


# =========================================================================================
# further std vocabulary (so that realistic rewrites of the crate stay decidable)


@model('str::bytes')
def m_str_bytes(I, c, s):
    return ListIt(list(sbytes(s)))


@model('str::char_indices')
def m_char_indices(I, c, s):
    b = sbytes(s)
    out, i = [], 0
    while i < len(b):
        ch, w = decode_char(I, b, i)
        out.append(Tup(i, ch))
        i += w
    return ListIt(out)


@model('str::starts_with')
def m_starts_with(I, c, s, p):
    b = sbytes(s)
    p = deref_all(p)
    if isinstance(p, (Closure, FnItem, VecVal)):
        b = list(b)
        return len(b) > 0 and _pat_matcher(I, p)(b, 0) > 0
    if isinstance(p, int) or is_sym(p):
        return len(b) > 0 and beq(I, b[0], p) if isinstance(p, int) and p < 0x80 else _unsupported('starts_with non-ASCII char')
    pb = sbytes(p)
    return len(b) >= len(pb) and str_eq(I, b[:len(pb)], pb)


@model('str::ends_with')
def m_ends_with(I, c, s, p):
    b = sbytes(s)
    p = deref_all(p)
    if isinstance(p, (Closure, FnItem, VecVal)):
        b = list(b)
        if not b:
            return False
        i = len(b) - 1          # start of the last char
        while i > 0 and not I.ctx.decide(b_not(rng(b[i], 0x80, 0xBF)) if not isinstance(b[i], int) else not (0x80 <= b[i] <= 0xBF)):
            i -= 1
        return _pat_matcher(I, p)(b, i) > 0
    if isinstance(p, int):
        _ascii_pat(p)
        return len(b) > 0 and beq(I, b[-1], p)
    pb = sbytes(p)
    return len(b) >= len(pb) and str_eq(I, b[len(b) - len(pb):], pb)


def _unsupported(msg):
    raise Unsupported(msg)


@model('str::strip_suffix')
def m_strip_suffix(I, c, s, p):
    b = sbytes(s)
    p = deref_all(p)
    pb = [_ascii_pat(p)] if isinstance(p, int) else list(sbytes(p))
    if len(b) >= len(pb) and str_eq(I, b[len(b) - len(pb):], pb):
        return Some(RStr(b[:len(b) - len(pb)]))
    return NONE_()


@model('str::find')
def m_str_find(I, c, s, p):
    b = sbytes(s)
    p = deref_all(p)
    if isinstance(p, int):
        _ascii_pat(p)
        for i, x in enumerate(b):
            if beq(I, x, p):
                return Some(i)
        return NONE_()
    if isinstance(p, VecVal):
        tab = sum(1 << _ascii_pat(q) for q in set(p.items))
        for i, x in enumerate(b):
            if in_set(I, x, tab):
                return Some(i)
        return NONE_()
    pb = sbytes(p)
    for i in range(len(b) - len(pb) + 1):
        if str_eq(I, b[i:i + len(pb)], pb):
            return Some(i)
    return NONE_()


@model('str::rfind')
def m_str_rfind(I, c, s, p):
    b = sbytes(s)
    p = deref_all(p)
    if isinstance(p, int):
        _ascii_pat(p)
        for i in range(len(b) - 1, -1, -1):
            if beq(I, b[i], p):
                return Some(i)
        return NONE_()
    pb = sbytes(p)
    for i in range(len(b) - len(pb), -1, -1):
        if str_eq(I, b[i:i + len(pb)], pb):
            return Some(i)
    return NONE_()


def _check_boundary(I, b, i):
    if i > len(b):
        raise Panic('byte index %d is out of bounds' % i)
    if i < len(b) and in_range(I, b[i], 0x80, 0xBF):
        raise Panic('byte index %d is not a char boundary' % i)


@model('str::split_at')
def m_split_at(I, c, s, i):
    b = sbytes(s)
    _check_boundary(I, b, i)
    return Tup(RStr(b[:i]), RStr(b[i:]))


def _range_of(r, n):
    """(lo, hi) from a Range / RangeFrom / RangeTo / RangeFull value"""
    r = deref_all(r)
    if isinstance(r, Adt):
        if r.ty == 'Range':
            return r.fields[0], r.fields[1]
        if r.ty == 'RangeFrom':
            return r.fields[0], n
        if r.ty == 'RangeTo':
            return 0, r.fields[0]
        if r.ty == 'RangeInclusive':
            return r.fields[0], r.fields[1] + 1
        if r.ty == 'RangeToInclusive':
            return 0, r.fields[0] + 1
        if r.ty == 'RangeFull':
            return 0, n
    raise Unsupported('range %r' % (r,))


@model('Index::index@str', 'Index::index@String', 'Index::index@SmartString', 'str::get_unchecked', 'SliceIndex::index')
def m_str_index(I, c, s, r):
    if c.method == 'index' and c.trait is not None and c.trait[1] == 'SliceIndex':
        s, r = r, s
    b = sbytes(s)
    lo, hi = _range_of(r, len(b))
    if not (isinstance(lo, int) and isinstance(hi, int)):
        raise Unsupported('symbolic slice bounds')
    if lo > hi or hi > len(b):
        raise Panic('slice index out of range')
    _check_boundary(I, b, lo)
    _check_boundary(I, b, hi)
    return RStr(b[lo:hi])


@model('str::get')
def m_str_get(I, c, s, r):
    b = sbytes(s)
    lo, hi = _range_of(r, len(b))
    if lo > hi or hi > len(b):
        return NONE_()
    for i in (lo, hi):
        if i < len(b) and in_range(I, b[i], 0x80, 0xBF):
            return NONE_()
    return Some(RStr(b[lo:hi]))


@model('str::trim', 'str::trim_start', 'str::trim_end')
def m_str_trim(I, c, s):
    WS = sum(1 << x for x in (9, 10, 11, 12, 13, 32))
    b = list(sbytes(s))
    for x in b:
        if not isinstance(x, int) and not I.ctx.decide_pred(x, ((1 << 128) - 1)):
            raise Unsupported('trim over non-ASCII symbolic text (Unicode white space not modelled)')
    if c.method != 'trim_end':
        while b and in_set(I, b[0], WS):
            b.pop(0)
    if c.method != 'trim_start':
        while b and in_set(I, b[-1], WS):
            b.pop()
    return RStr(b)


@model('str::trim_end_matches')
def m_trim_end_matches(I, c, s, ch):
    b = list(sbytes(s))
    _ascii_pat(ch)
    while b and beq(I, b[-1], ch):
        b.pop()
    return RStr(b)


@model('str::rsplit')
def m_rsplit(I, c, s, ch):
    b = sbytes(s)
    _ascii_pat(ch)
    out, cur = [], []
    for x in b:
        if beq(I, x, ch):
            out.append(RStr(cur))
            cur = []
        else:
            cur.append(x)
    out.append(RStr(cur))
    return ListIt(out[::-1])


@model('str::splitn')
def m_splitn(I, c, s, n, ch):
    b = sbytes(s)
    _ascii_pat(ch)
    out, cur = [], []
    for x in b:
        if len(out) < n - 1 and beq(I, x, ch):
            out.append(RStr(cur))
            cur = []
        else:
            cur.append(x)
    out.append(RStr(cur))
    return ListIt(out if n > 0 else [])


@model('str::rsplitn')
def m_rsplitn(I, c, s, n, ch):
    b = sbytes(s)
    _ascii_pat(ch)
    out, cur = [], []
    for x in reversed(b):
        if len(out) < n - 1 and beq(I, x, ch):
            out.append(RStr(cur[::-1]))
            cur = []
        else:
            cur.append(x)
    out.append(RStr(cur[::-1]))
    return ListIt(out if n > 0 else [])


@model('str::split_terminator')
def m_split_terminator(I, c, s, ch):
    parts = SplitIt(sbytes(s), _ascii_pat(ch)).drain(I)
    if parts and len(parts[-1].b) == 0:
        parts.pop()
    return ListIt(parts)


@model('str::to_ascii_uppercase')
def m_to_ascii_upper(I, c, s):
    out = []
    for x in sbytes(s):
        if isinstance(x, int):
            out.append(x - 0x20 if 0x61 <= x <= 0x7A else x)
        elif in_range(I, x, 0x61, 0x7A):
            out.append(z3.simplify(x - 0x20))
        else:
            out.append(x)
    return StringBuf(out)


@model('str::make_ascii_uppercase')
def m_make_ascii_upper(I, c, s):
    buf = strbuf_of(s)
    for i, x in enumerate(buf.b):
        if isinstance(x, int):
            if 0x61 <= x <= 0x7A:
                buf.b[i] = x - 0x20
        elif in_range(I, x, 0x61, 0x7A):
            buf.b[i] = z3.simplify(x - 0x20)
    return UNIT()


@model('str::is_ascii')
def m_str_is_ascii(I, c, s):
    return all(in_range(I, x, 0, 0x7F) for x in sbytes(s))


@model('str::is_char_boundary')
def m_is_char_boundary(I, c, s, i):
    b = sbytes(s)
    if i == 0 or i == len(b):
        return True
    if i > len(b):
        return False
    return not in_range(I, b[i], 0x80, 0xBF)


@model('str::repeat')
def m_str_repeat(I, c, s, n):
    return StringBuf(list(sbytes(s)) * n)


@model('str::replace')
def m_str_replace(I, c, s, pat, to):
    b = sbytes(s)
    p = deref_all(pat)
    tb = list(sbytes(to))
    if isinstance(p, int):
        _ascii_pat(p)
        out = []
        for x in b:
            if beq(I, x, p):
                out.extend(tb)
            else:
                out.append(x)
        return StringBuf(out)
    pb = sbytes(p)
    if not pb:
        raise Unsupported('replace with empty pattern')
    out, i = [], 0
    while i < len(b):
        if i + len(pb) <= len(b) and str_eq(I, b[i:i + len(pb)], pb):
            out.extend(tb)
            i += len(pb)
        else:
            out.append(b[i])
            i += 1
    return StringBuf(out)


@model('str::to_uppercase')
def m_str_to_uppercase(I, c, s):
    raise Unsupported('str::to_uppercase (no upper-case table)')


# ---- u8
@model('u8::is_ascii_alphanumeric')
def m_u8_alnum(I, c, r):
    x = deref_all(r)
    return b_or(rng(x, 0x30, 0x39), rng(x, 0x41, 0x5A), rng(x, 0x61, 0x7A))


@model('u8::is_ascii_alphabetic', 'char::is_ascii_alphabetic')
def m_u8_alpha(I, c, r):
    x = deref_all(r)
    return b_or(rng(x, 0x41, 0x5A), rng(x, 0x61, 0x7A))


@model('u8::is_ascii_digit')
def m_u8_digit(I, c, r):
    return rng(deref_all(r), 0x30, 0x39)


@model('u8::is_ascii_hexdigit')
def m_u8_hexdigit(I, c, r):
    x = deref_all(r)
    return b_or(rng(x, 0x30, 0x39), rng(x, 0x41, 0x46), rng(x, 0x61, 0x66))


@model('u8::is_ascii_lowercase')
def m_u8_lower(I, c, r):
    return rng(deref_all(r), 0x61, 0x7A)


@model('u8::is_ascii_uppercase')
def m_u8_upper(I, c, r):
    return rng(deref_all(r), 0x41, 0x5A)


@model('u8::is_ascii')
def m_u8_is_ascii(I, c, r):
    x = deref_all(r)
    return x < 0x80 if isinstance(x, int) else z3.ULT(x, 0x80)


@model('u8::is_ascii_punctuation', 'char::is_ascii_punctuation')
def m_u8_punct(I, c, r):
    x = deref_all(r)
    return b_or(rng(x, 0x21, 0x2F), rng(x, 0x3A, 0x40), rng(x, 0x5B, 0x60), rng(x, 0x7B, 0x7E))


@model('u8::is_ascii_control', 'char::is_ascii_control')
def m_u8_control(I, c, r):
    x = deref_all(r)
    return b_or(rng(x, 0, 0x1F), rng(x, 0x7F, 0x7F))


@model('u8::is_ascii_whitespace', 'char::is_ascii_whitespace')
def m_u8_ws(I, c, r):
    x = deref_all(r)
    return b_or(rng(x, 9, 10), rng(x, 12, 13), rng(x, 32, 32))


@model('u8::is_ascii_graphic', 'char::is_ascii_graphic')
def m_u8_graphic(I, c, r):
    return rng(deref_all(r), 0x21, 0x7E)


@model('u8::to_ascii_lowercase')
def m_u8_to_lower(I, c, r):
    x = deref_all(r)
    if isinstance(x, int):
        return x + 0x20 if 0x41 <= x <= 0x5A else x
    return z3.If(z3.And(z3.UGE(x, 0x41), z3.ULE(x, 0x5A)), x + 0x20, x)


@model('u8::to_ascii_uppercase')
def m_u8_to_upper(I, c, r):
    x = deref_all(r)
    if isinstance(x, int):
        return x - 0x20 if 0x61 <= x <= 0x7A else x
    return z3.If(z3.And(z3.UGE(x, 0x61), z3.ULE(x, 0x7A)), x - 0x20, x)


@model('u8::eq_ignore_ascii_case', 'char::eq_ignore_ascii_case')
def m_u8_eq_ignore_case(I, c, a, b):
    return ascii_lower_byte(deref_all(a)) == ascii_lower_byte(deref_all(b))


@model('char::is_alphanumeric', 'char::is_alphabetic', 'char::is_numeric', 'char::is_whitespace', 'char::is_control')
def m_char_unicode_class(I, c, r):
    x = deref_all(r)
    if isinstance(x, int) and x < 0x80:
        ch = chr(x)
        return {'is_alphanumeric': ch.isalnum(), 'is_alphabetic': ch.isalpha(), 'is_numeric': ch.isdigit(),
                'is_whitespace': ch in ' \t\n\r\x0b\x0c', 'is_control': x < 0x20 or x == 0x7F}[c.method]
    return unicode_class(I, x, c.method)


ASCII_CLASS = {'is_alphanumeric': [(0x30, 0x39), (0x41, 0x5A), (0x61, 0x7A)], 'is_alphabetic': [(0x41, 0x5A), (0x61, 0x7A)], 'is_numeric': [(0x30, 0x39)],
               'is_whitespace': [(0x09, 0x0D), (0x20, 0x20)], 'is_control': [(0, 0x1F), (0x7F, 0x7F)], 'is_lowercase': [(0x61, 0x7A)]}


def unicode_class(I, x, name):
    """membership of a scalar value (concrete or symbolic) in a character class of the real std (table dumped at setup)"""
    tab = unicode_tables()['classes'].get(name)
    if tab is None:
        raise Unsupported('char::%s: no table in unicode.json (re-run setup)' % name)
    if isinstance(x, int):
        return any(lo <= x <= hi for lo, hi in ASCII_CLASS[name]) or any(lo <= x <= hi for lo, hi, _ in tab)
    x = zx(x)
    bd = CHAR_BOUNDS.get(x.get_id())
    if (bd is None or bd[1] < 0x80) and I.ctx.decide(z3.ULT(x, 0x80)):
        return b_or(*[rng(x, lo, hi) for lo, hi in ASCII_CLASS[name]])
    return in_ranges(x, tab)


@model('char::len_utf8')
def m_len_utf8(I, c, ch):
    return len(encode_char(I, deref_all(ch)))


@model('PartialEq::eq@char', 'PartialEq::eq@u8', 'PartialEq::eq@usize', 'PartialEq::eq@bool')
def m_scalar_eq(I, c, a, b):
    a, b = deref_all(a), deref_all(b)
    if isinstance(a, (int, bool)) and isinstance(b, (int, bool)):
        return a == b
    return zx(a) == zx(b)


@model('PartialEq::ne@char', 'PartialEq::ne@u8', 'PartialEq::ne@usize')
def m_scalar_ne(I, c, a, b):
    a, b = deref_all(a), deref_all(b)
    if isinstance(a, int) and isinstance(b, int):
        return a != b
    return zx(a) != zx(b)


@model('Ord::cmp@char', 'Ord::cmp@u32')
def m_char_cmp(I, c, a, b):
    return Ordering(seq_cmp(I, [zx(deref_all(a))], [zx(deref_all(b))]))


@model('PartialOrd::partial_cmp@char', 'PartialOrd::partial_cmp@u8')
def m_char_pcmp(I, c, a, b):
    return Some(Ordering(seq_cmp(I, [zx(deref_all(a))], [zx(deref_all(b))])))


@model('Ord::cmp@u8')
def m_u8_cmp(I, c, a, b):
    return Ordering(seq_cmp(I, [deref_all(a)], [deref_all(b)]))


@model('Ordering::then', 'Ordering::then_with')
def m_ord_then(I, c, o, nxt):
    if o.variant != 'Equal':
        return o
    return I.call_value(nxt, []) if c.method == 'then_with' else nxt


@model('Ordering::reverse')
def m_ord_reverse(I, c, o):
    return Adt('Ordering', {'Less': 'Greater', 'Equal': 'Equal', 'Greater': 'Less'}[o.variant], [])


@model('Ordering::is_lt', 'Ordering::is_gt', 'Ordering::is_le', 'Ordering::is_ge')
def m_ord_is(I, c, o):
    v = deref_all(o).variant
    return {'is_lt': v == 'Less', 'is_gt': v == 'Greater', 'is_le': v != 'Greater', 'is_ge': v != 'Less'}[c.method]


# ---- more iterator adaptors
class ZipIt(It):
    def __init__(self, a, b):
        self.a, self.b = a, b

    def next(self, I):
        x = self.a.next(I)
        if x is STOP:
            return STOP
        y = self.b.next(I)
        if y is STOP:
            return STOP
        return Tup(x, y)


@model('Iterator::zip')
def m_iter_zip(I, c, a, b):
    return ZipIt(as_iter(I, a), as_iter(I, b))


@model('Iterator::enumerate')
def m_iter_enumerate(I, c, a):
    return ListIt([Tup(i, v) for i, v in enumerate(as_iter(I, a).drain(I))])


@model('Iterator::skip')
def m_iter_skip(I, c, a, n):
    return ListIt(as_iter(I, a).drain(I)[n:])


@model('Iterator::take')
def m_iter_take(I, c, a, n):
    it = as_iter(I, a)
    out = []
    while len(out) < n:
        v = it.next(I)
        if v is STOP:
            break
        out.append(v)
    return ListIt(out)


@model('Iterator::chain')
def m_iter_chain(I, c, a, b):
    return ListIt(as_iter(I, a).drain(I) + as_iter(I, b).drain(I))


@model('Iterator::peekable', 'Iterator::fuse', 'Iterator::by_ref', 'Iterator::copied', 'Iterator::cloned')
def m_iter_passthrough(I, c, a):
    it = as_iter(I, a)
    if c.method in ('copied', 'cloned'):
        return ListIt([clone_val(deref_all(v)) for v in it.drain(I)])
    return it


@model('Iterator::last')
def m_iter_last(I, c, a):
    xs = as_iter(I, a).drain(I)
    return Some(xs[-1]) if xs else NONE_()


@model('Iterator::nth')
def m_iter_nth(I, c, a, n):
    it = deref_all(a)
    v = STOP
    for _ in range(n + 1):
        v = it.next(I)
        if v is STOP:
            return NONE_()
    return Some(v)


@model('DoubleEndedIterator::nth_back')
def m_iter_nth_back(I, c, a, n):
    it = deref_all(a)
    v = STOP
    for _ in range(n + 1):
        v = it.next_back(I)
        if v is STOP:
            return NONE_()
    return Some(v)


@model('Iterator::position')
def m_iter_position(I, c, a, f):
    it = deref_all(a)
    i = 0
    while True:
        v = it.next(I)
        if v is STOP:
            return NONE_()
        if I.ctx.decide(I.call_value(f, [v])):
            return Some(i)
        i += 1


@model('Iterator::find')
def m_iter_find(I, c, a, f):
    it = deref_all(a)
    while True:
        v = it.next(I)
        if v is STOP:
            return NONE_()
        if I.ctx.decide(I.call_value(f, [Ref([v], 0)])):
            return Some(v)


@model('Iterator::find_map', 'Iterator::filter_map')
def m_iter_find_map(I, c, a, f):
    it = as_iter(I, a)
    out = []
    while True:
        v = it.next(I)
        if v is STOP:
            break
        r = I.call_value(f, [v])
        if r.variant == 'Some':
            if c.method == 'find_map':
                return r
            out.append(r.fields[0])
    return NONE_() if c.method == 'find_map' else ListIt(out)


@model('Iterator::fold')
def m_iter_fold(I, c, a, init, f):
    acc = init
    for v in as_iter(I, a).drain(I):
        acc = I.call_value(f, [acc, v])
    return acc


@model('Iterator::for_each')
def m_iter_for_each(I, c, a, f):
    for v in as_iter(I, a).drain(I):
        I.call_value(f, [v])
    return UNIT()


@model('Iterator::skip_while', 'Iterator::take_while')
def m_iter_while(I, c, a, f):
    xs = as_iter(I, a).drain(I)
    i = 0
    while i < len(xs) and I.ctx.decide(I.call_value(f, [Ref(xs, i)])):
        i += 1
    return ListIt(xs[i:] if c.method == 'skip_while' else xs[:i])


@model('Iterator::max', 'Iterator::min')
def m_iter_minmax(I, c, a):
    xs = as_iter(I, a).drain(I)
    if not xs:
        return NONE_()
    best = xs[0]
    for v in xs[1:]:
        o = seq_cmp(I, [zx(v)], [zx(best)])
        if (c.method == 'max' and o >= 0) or (c.method == 'min' and o < 0):
            best = v
    return Some(best)


# ---- more Option / Result
@model('Option::unwrap_or_else')
def m_opt_unwrap_or_else(I, c, o, f):
    return o.fields[0] if o.variant == 'Some' else I.call_value(f, [])


@model('Result::unwrap_or_else')
def m_res_unwrap_or_else(I, c, o, f):
    return o.fields[0] if o.variant == 'Ok' else I.call_value(f, [o.fields[0]])


@model('Result::unwrap_or', 'Result::unwrap_or_default')
def m_res_unwrap_or(I, c, o, *d):
    if o.variant == 'Ok':
        return o.fields[0]
    if d:
        return d[0]
    raise Unsupported('Result::unwrap_or_default')


@model('Option::map_or')
def m_opt_map_or(I, c, o, d, f):
    return I.call_value(f, [o.fields[0]]) if o.variant == 'Some' else d


@model('Option::map_or_else')
def m_opt_map_or_else(I, c, o, d, f):
    return I.call_value(f, [o.fields[0]]) if o.variant == 'Some' else I.call_value(d, [])


@model('Option::is_some_and')
def m_is_some_and(I, c, o, f):
    return o.variant == 'Some' and I.ctx.decide(I.call_value(f, [o.fields[0]]))


@model('Option::is_none_or')
def m_is_none_or(I, c, o, f):
    return o.variant == 'None' or I.ctx.decide(I.call_value(f, [o.fields[0]]))


@model('Option::or')
def m_opt_or(I, c, o, b):
    return o if o.variant == 'Some' else b


@model('Option::or_else')
def m_opt_or_else(I, c, o, f):
    return o if o.variant == 'Some' else I.call_value(f, [])


@model('Option::and')
def m_opt_and(I, c, o, b):
    return b if o.variant == 'Some' else o


@model('Option::xor')
def m_opt_xor(I, c, a, b):
    if (a.variant == 'Some') != (b.variant == 'Some'):
        return a if a.variant == 'Some' else b
    return NONE_()


@model('Option::take')
def m_opt_take(I, c, r):
    v = r.get()
    r.set(NONE_())
    return v


@model('Option::as_mut', 'Result::as_ref', 'Result::as_mut')
def m_as_mut(I, c, o):
    v = deref_all(o)
    if v.variant in ('None',):
        return NONE_()
    return Adt(v.ty, v.variant, [Ref(v.fields, 0)])


@model('Option::ok_or_else')
def m_ok_or_else2(I, c, o, f):
    return Ok(o.fields[0]) if o.variant == 'Some' else Err(I.call_value(f, []))


@model('Option::zip')
def m_opt_zip(I, c, a, b):
    if a.variant == 'Some' and b.variant == 'Some':
        return Some(Tup(a.fields[0], b.fields[0]))
    return NONE_()


@model('Option::unzip')
def m_opt_unzip(I, c, a):
    if a.variant == 'Some':
        return Tup(Some(a.fields[0].fields[0]), Some(a.fields[0].fields[1]))
    return Tup(NONE_(), NONE_())


@model('Result::or_else')
def m_res_or_else(I, c, r, f):
    return r if r.variant == 'Ok' else I.call_value(f, [r.fields[0]])


@model('PartialEq::eq@Option', 'PartialEq::eq@Result')
def m_opt_eq(I, c, a, b):
    x, y = deref_all(a), deref_all(b)
    if x.variant != y.variant:
        return False
    if not x.fields:
        return True
    inner = c.self_ty[2][0] if x.variant in ('Some', 'Ok') else c.self_ty[2][1]
    return I.trait_call('PartialEq', 'eq', inner, [Ref(x.fields, 0), Ref(y.fields, 0)])


# ---- more String
@model('$S::insert')
def m_string_insert(I, c, r, idx, ch):
    buf = strbuf_of(r)
    _check_boundary(I, buf.b, idx)
    buf.b[idx:idx] = encode_char(I, ch)
    return UNIT()


@model('$S::insert_str')
def m_string_insert_str(I, c, r, idx, s):
    buf = strbuf_of(r)
    _check_boundary(I, buf.b, idx)
    buf.b[idx:idx] = list(sbytes(s))
    return UNIT()


@model('SmartString::is_inline')
def m_ss_is_inline(I, c, r):
    """a SmartString is inline while it never held more than the 23 bytes of the inline buffer (64-bit targets): the lazily compacting
    mode keeps a string on the heap when it is shortened in place, which the buffer's high-water mark records; a fresh copy
    (clone, collect, From<&str>) starts again from its own length"""
    return strbuf_of(r).high_water <= 23


@model('const:smartstring::MAX_INLINE', 'const:MAX_INLINE')
def m_ss_max_inline(I, c):
    return 23


@model('$S::drain')
def m_string_drain(I, c, r, rg):
    buf = strbuf_of(r)
    lo, hi = _range_of(rg, len(buf.b))
    if not (isinstance(lo, int) and isinstance(hi, int)):
        raise Unsupported('symbolic drain range')
    if lo > hi or hi > len(buf.b):
        raise Panic('drain range out of bounds (%d..%d of %d)' % (lo, hi, len(buf.b)))
    _check_boundary(I, buf.b, lo)
    _check_boundary(I, buf.b, hi)
    out = buf.b[lo:hi]
    del buf.b[lo:hi]         # the removal happens when the Drain is dropped; nothing observes the string in between
    return ListIt([x for x in chars_of(I, out)])


@model('u8::from_str_radix', 'u16::from_str_radix', 'u32::from_str_radix', 'u64::from_str_radix', 'usize::from_str_radix')
def m_from_str_radix(I, c, s, radix):
    """unsigned from_str_radix(_, 16): an optional leading '+', then one or more hex digits; overflow is an error"""
    if radix != 16:
        raise Unsupported('from_str_radix with radix %r' % (radix,))
    bits = {'u8': 8, 'u16': 16, 'u32': 32, 'u64': 64, 'usize': 64}[c.text.split('::')[0] if c.text else 'u8'] if False else None
    name = (c.self_ty[1] if c.self_ty is not None and c.self_ty[0] == 'adt' else None) or (show(c.self_ty) if c.self_ty is not None else 'u8')
    bits = {'u8': 8, 'u16': 16, 'u32': 32, 'u64': 64, 'usize': 64}[name]
    b = list(sbytes(s))
    err = Err(Adt('ParseIntError', None, []))
    if not b:
        return err
    if beq(I, b[0], 0x2B):
        b = b[1:]
        if not b:
            return err
    elif len(b) == 1 and beq(I, b[0], 0x2D):
        return err
    HEXD = sum(1 << x for x in b'0123456789abcdefABCDEF')
    val = 0
    for x in b:
        if not in_set(I, x, HEXD):
            return err
        if isinstance(x, int):
            d = int(chr(x), 16)
        else:
            xx = zx(x, bits) if bits > 8 else x
            d = z3.If(z3.ULE(xx, 0x39), xx - 0x30, (xx | 0x20) - 0x57)
        if len(b) * 4 > bits:
            raise Unsupported('from_str_radix: possible overflow not modelled')
        val = (val << 4 | d) if isinstance(val, int) and isinstance(d, int) else ((z3.BitVecVal(val, bits) if isinstance(val, int) else val) << 4) | (z3.BitVecVal(d, bits) if isinstance(d, int) else d)
    return Ok(val if isinstance(val, int) else z3.simplify(val))


@model('FromStr::from_str@u64', 'FromStr::from_str@u32', 'FromStr::from_str@usize', 'FromStr::from_str@u16', 'FromStr::from_str@u8')
def m_uint_from_str(I, c, s):
    """unsigned decimal FromStr: an optional leading '+', then one or more ASCII digits; overflow is an error"""
    name = c.self_ty[1] if c.self_ty is not None and c.self_ty[0] == 'adt' else show(c.self_ty)
    bits = {'u8': 8, 'u16': 16, 'u32': 32, 'u64': 64, 'usize': 64}[name]
    b = list(sbytes(s))
    err = Err(Adt('ParseIntError', None, []))
    if not b:
        return err
    if beq(I, b[0], 0x2B):
        b = b[1:]
        if not b:
            return err
    elif len(b) == 1 and beq(I, b[0], 0x2D):
        return err
    if 10 ** len(b) - 1 >= 2 ** bits:
        raise Unsupported('decimal parse: possible overflow not modelled (%d digits into %s)' % (len(b), name))
    DIG = sum(1 << x for x in b'0123456789')
    val = 0
    for x in b:
        if not in_set(I, x, DIG):
            return err
        d = x - 0x30 if isinstance(x, int) else zx(x, bits) - 0x30
        if isinstance(val, int) and isinstance(d, int):
            val = val * 10 + d
        else:
            val = (z3.BitVecVal(val, bits) if isinstance(val, int) else val) * 10 + (z3.BitVecVal(d, bits) if isinstance(d, int) else d)
    return Ok(val if isinstance(val, int) else z3.simplify(val))


@model('Iterator::step_by')
def m_step_by(I, c, it, n):
    v = deref_all(it)
    if not isinstance(n, int) or n == 0:
        raise Panic('step_by(0)') if n == 0 else Unsupported('symbolic step')
    if isinstance(v, Adt) and v.ty == 'Range':
        lo, hi = v.fields
        if not (isinstance(lo, int) and isinstance(hi, int)):
            raise Unsupported('step_by over a symbolic range')
        return ListIt(list(range(lo, hi, n)))
    xs = as_iter(I, it).drain(I)
    return ListIt(xs[::n])


@model('$S::truncate')
def m_string_truncate(I, c, r, n):
    buf = strbuf_of(r)
    if n < len(buf.b):
        _check_boundary(I, buf.b, n)
        del buf.b[n:]
    return UNIT()


@model('$S::pop')
def m_string_pop(I, c, r):
    buf = strbuf_of(r)
    if not buf.b:
        return NONE_()
    chars, i, last = [], 0, 0
    while i < len(buf.b):
        last = i
        ch, w = decode_char(I, buf.b, i)
        i += w
    del buf.b[last:]
    return Some(ch)


@model('$S::reserve', '$S::reserve_exact', '$S::shrink_to_fit')
def m_string_reserve(I, c, r, *n):
    return UNIT()


@model('$S::capacity')
def m_string_capacity(I, c, r):
    """String: the smallest capacity the value can have (0 for String::new()); SmartString: the inline buffer holds
    23 bytes on 64-bit targets, so capacity() is 23 while the string is inline"""
    n = len(strbuf_of(r).b)
    if c.self_ty is not None and head(c.self_ty) == 'SmartString':
        return max(23, n)
    return n


@model('$S::into_bytes', '$S::as_bytes')
def m_string_into_bytes(I, c, r):
    return VecVal(list(sbytes(r))) if c.method == 'into_bytes' else RStr(sbytes(r))


@model('$S::retain')
def m_string_retain(I, c, r, f):
    buf = strbuf_of(r)
    out, i = [], 0
    while i < len(buf.b):
        ch, w = decode_char(I, buf.b, i)
        if I.ctx.decide(I.call_value(f, [ch])):
            out.extend(buf.b[i:i + w])
        i += w
    buf.b[:] = out
    return UNIT()


@model('$S::into_string', '$S::into_boxed_str', 'Into::into@String')
def m_into_string(I, c, r):
    return StringBuf(sbytes(r))


@model('Add::add@String', 'AddAssign::add_assign@String')
def m_string_add(I, c, a, b):
    if c.method == 'add':
        a.b.extend(sbytes(b))
        return a
    strbuf_of(a).b.extend(sbytes(b))
    return UNIT()


@model('FromIterator::from_iter@String', 'FromIterator::from_iter@SmartString')
def m_string_from_iter(I, c, it):
    out = []
    for ch in as_iter(I, it).drain(I):
        if isinstance(ch, (RStr, StringBuf)):
            out.extend(sbytes(ch))
        else:
            out.extend(encode_char(I, ch))
    return StringBuf(out)


@model('fn:from_utf8')
def m_from_utf8(I, c, v):
    d = deref_all(v)
    b = d.items if isinstance(d, VecVal) else list(sbytes(d))
    if utf8_valid(I, b):
        return Ok(RStr(b))
    return Err(Adt('Utf8Error', None, []))


@model('String::from_utf8')
def m_string_from_utf8(I, c, v):
    b = deref_all(v).items
    if utf8_valid(I, b):
        return Ok(StringBuf(b))
    return Err(Adt('FromUtf8Error', None, [VecVal(b)]))


@model('Vec::extend_from_slice', 'Extend::extend@Vec')
def m_vec_extend(I, c, r, src):
    v = vec_of(r)
    s = deref_all(src)
    if isinstance(s, VecVal):
        v.items.extend(clone_val(x) for x in s.items)
    elif isinstance(s, It):
        v.items.extend(s.drain(I))
    else:
        v.items.extend(sbytes(s))
    return UNIT()


@model('Vec::truncate')
def m_vec_truncate(I, c, r, n):
    del vec_of(r).items[n:]
    return UNIT()


@model('Vec::first', 'slice::first')
def m_vec_first(I, c, r):
    v = vec_of(r)
    return Some(Ref(v.items, 0)) if v.items else NONE_()


@model('Vec::last', 'slice::last', 'slice::last_mut', 'slice::first_mut')
def m_vec_last(I, c, r):
    v = vec_of(r)
    if not v.items:
        return NONE_()
    return Some(Ref(v.items, len(v.items) - 1 if 'last' in c.method else 0))


@model('slice::get', 'slice::get_mut', 'Vec::get')
def m_slice_get(I, c, r, i):
    v = vec_of(r)
    if not isinstance(i, int):
        raise Unsupported('slice::get with range / symbolic index')
    return Some(Ref(v.items, i)) if i < len(v.items) else NONE_()


@model('Vec::dedup')
def m_vec_dedup(I, c, r):
    v = vec_of(r)
    et = elem_types(c.self_ty)
    out = []
    for x in v.items:
        if out and I.ctx.decide(I.trait_call('PartialEq', 'eq', et, [Ref([x], 0), Ref(out, len(out) - 1)])):
            continue
        out.append(x)
    v.items[:] = out
    return UNIT()


@model('Vec::dedup_by_key')
def m_vec_dedup_by_key(I, c, r, f):
    v = vec_of(r)
    kt = c.margs[1] if len(c.margs) > 1 else (c.margs[0] if c.margs else None)
    out, prev = [], None
    for i, x in enumerate(v.items):
        k = I.call_value(f, [Ref(v.items, i)])
        if out and I.ctx.decide(I.trait_call('PartialEq', 'eq', kt, [Ref([k], 0), Ref([prev], 0)])):
            continue
        out.append(x)
        prev = k
    v.items[:] = out
    return UNIT()


@model('Vec::dedup_by')
def m_vec_dedup_by(I, c, r, f):
    v = vec_of(r)
    out = []
    for x in v.items:
        if out and I.ctx.decide(I.call_value(f, [Ref([x], 0), Ref(out, len(out) - 1)])):
            continue
        out.append(x)
    v.items[:] = out
    return UNIT()


@model('Vec::swap_remove')
def m_vec_swap_remove(I, c, r, i):
    v = vec_of(r)
    if i >= len(v.items):
        raise Panic('swap_remove index out of bounds')
    v.items[i], v.items[-1] = v.items[-1], v.items[i]
    return v.items.pop()


@model('slice::to_vec', 'slice::into_vec')
def m_to_vec(I, c, r):
    return clone_val(vec_of(r))


@model('slice::partition_point')
def m_partition_point(I, c, sl, f):
    v = vec_of(sl).items
    lo, hi = 0, len(v)
    while lo < hi:
        mid = lo + (hi - lo) // 2
        if I.ctx.decide(I.call_value(f, [Ref(v, mid)])):
            lo = mid + 1
        else:
            hi = mid
    return lo


@model('slice::binary_search_by_key')
def m_bsearch_key(I, c, sl, key, f):
    raise Unsupported('binary_search_by_key')


@model('slice::sort_unstable_by_key', 'slice::sort_by_key', 'slice::sort_by_cached_key')
def m_sort_by_key(I, c, sl, f):
    raise Unsupported('sort_by_key')


@model('slice::sort', 'slice::sort_unstable')
def m_sort(I, c, sl):
    v = vec_of(sl).items
    et = elem_types(c.self_ty)
    for i in range(1, len(v)):
        j = i
        while j > 0 and I.trait_call('Ord', 'cmp', et, [Ref(v, j - 1), Ref(v, j)]).variant == 'Greater':
            v[j - 1], v[j] = v[j], v[j - 1]
            j -= 1
    return UNIT()


@model('slice::reverse')
def m_slice_reverse(I, c, sl):
    vec_of(sl).items.reverse()
    return UNIT()


@model('slice::join', 'slice::concat')
def m_slice_join(I, c, sl, *sep):
    v = vec_of(sl).items
    out = []
    for i, e in enumerate(v):
        if i and sep:
            out.extend(sbytes(sep[0]))
        out.extend(sbytes(e))
    return StringBuf(out)


@model('HashMap::entry', 'HashMap::retain', 'HashMap::values', 'HashMap::values_mut', 'HashMap::iter_mut', 'HashMap::drain',
       'HashMap::get_key_value', 'HashMap::remove_entry', 'HashMap::extend', 'HashMap::clear')
def m_map_unsupported(I, c, *a):
    if c.method == 'clear':
        del map_of(a[0]).entries[:]
        return UNIT()
    if c.method == 'values':
        m = map_of(a[0])
        return ListIt([Ref(m.entries[i], 1) for i in permute(I, len(m.entries))])
    raise Unsupported('HashMap::%s' % c.method)


@model('fn:min', 'fn:max')
def m_minmax(I, c, a, b):
    if isinstance(a, int) and isinstance(b, int):
        return min(a, b) if c.method == 'min' else max(a, b)
    raise Unsupported('symbolic min/max')


@model('Ord::min@usize', 'Ord::max@usize')
def m_ord_minmax(I, c, a, b):
    return min(a, b) if c.method == 'min' else max(a, b)


# =========================================================================================
# serde data model (C15, C16): a recording Serializer and a one-value Deserializer


class ModelSerializer(Opaque):
    """records what it is given; with fail=True every call returns an error (a sink that refuses the value)"""
    def __init__(self, fail=False):
        self.calls = []
        self.fail = fail


# ---- thread-local state (`thread_local!`): one cell per key and per interpreter (= per thread), created by the key's own initialiser;
#      RefCell is the value it wraps (dynamic borrow flags are not tracked: a double borrow would be a panic this model does not see)
class LocalKeyVal(Opaque):
    def __init__(self, accessor):
        self.accessor = accessor


@model('LocalKey::new')
def m_localkey_new(I, c, accessor):
    return LocalKeyVal(accessor)


@model('LocalKey::with', 'LocalKey::try_with')
def m_localkey_with(I, c, key, f):
    k = deref_all(key)
    if isinstance(k, FnItem):        # the key constant itself, unevaluated: its path identifies the thread-local
        name = k.text
    else:
        name = k.accessor.text if isinstance(k.accessor, FnItem) else repr(k.accessor)
    tls = I.__dict__.setdefault('tls', {})
    if name not in tls:
        inits = [fn for fn in I.prog.fns if fn.name.split('::')[-1] == '__rust_std_internal_init_fn']
        if len(inits) != 1:
            raise Unsupported('%d thread-local initialisers in the crate (cannot tell which belongs to %s)' % (len(inits), name))
        tls[name] = [I.call_fn(inits[0], [], EMPTY_ENV)]
    r = I.call_value(f, [Ref(tls[name], 0)])
    return Ok(r) if c.method == 'try_with' else r


@model('RefCell::new')
def m_refcell_new(I, c, v):
    return Adt('RefCell', None, [v])


@model('RefCell::borrow_mut', 'RefCell::borrow', 'RefCell::get_mut')
def m_refcell_borrow(I, c, r):
    return Ref(deref_all(r).fields, 0)


@model('Deref::deref@RefMut', 'DerefMut::deref_mut@RefMut', 'Deref::deref@Ref')
def m_refmut_deref(I, c, r):
    return r


@model('Serializer::serialize_unit_variant')
def m_ser_unit_variant(I, c, ser, name, idx, variant):
    deref_all(ser).calls.append(('unit_variant', bytes(sbytes(name)), idx, bytes(sbytes(variant))))
    return Ok(UNIT())


@model('Serializer::collect_str')
def m_ser_collect_str(I, c, ser, val):
    f = Formatter()
    t = c.margs[0] if c.margs else None
    if t is None:
        raise Unsupported('collect_str without type argument')
    r = I.trait_call('Display', 'fmt', t, [val, Ref([f], 0)])
    if r.variant != 'Ok':
        raise Panic('a Display implementation returned an error unexpectedly')
    if deref_all(ser).fail:
        return Err(DeError('the serializer refuses the value'))
    deref_all(ser).calls.append(('str', list(f.out)))
    return Ok(UNIT())


@model('Serializer::serialize_str')
def m_ser_str(I, c, ser, s):
    if deref_all(ser).fail:
        return Err(DeError('the serializer refuses the value'))
    deref_all(ser).calls.append(('str', list(sbytes(s))))
    return Ok(UNIT())


class ModelDeserializer(Opaque):
    """holds one value of the serde data model: ('str'|'borrowed_str'|'string'|'bytes'|'u64'|'i64'|'bool'|'unit'|'seq'|'map'|'f64'|'none', payload)"""
    def __init__(self, kind, payload=None):
        self.kind, self.payload = kind, payload


class DeError(Opaque):
    def __init__(self, msg):
        self.msg = msg


@model('Deserializer::deserialize_str', 'Deserializer::deserialize_string', 'Deserializer::deserialize_any')
def m_de_str(I, c, de, visitor):
    """drives the visitor as serde documents: the deserializer calls the visit_* method matching the value it holds;
    visit_borrowed_str and visit_string default to visit_str; a method the visitor does not override yields invalid_type"""
    d = deref_all(de)
    vt = c.margs[0]
    if d.kind in ('str', 'borrowed_str', 'string'):
        arg = RStr(d.payload)
        for meth in ({'str': ['visit_str'], 'borrowed_str': ['visit_borrowed_str', 'visit_str'], 'string': ['visit_string', 'visit_str']}[d.kind]):
            r = I.prog.find_impl(('adt', 'Visitor', ()), vt, meth)
            if r is not None:
                imp, env = r
                f = imp.methods[meth]
                from .interp import Env
                env = dict(env)
                env['E'] = ('adt', 'DeError', ())
                a = StringBuf(d.payload) if meth == 'visit_string' else arg
                return I.call_fn(f, [visitor, a], Env(env))
        return Err(DeError('invalid type: string, expected something else'))
    meth = {'bytes': 'visit_bytes', 'u64': 'visit_u64', 'i64': 'visit_i64', 'bool': 'visit_bool', 'unit': 'visit_unit',
            'seq': 'visit_seq', 'map': 'visit_map', 'f64': 'visit_f64', 'none': 'visit_none', 'char': 'visit_char'}[d.kind]
    r = I.prog.find_impl(('adt', 'Visitor', ()), vt, meth)
    if r is not None:
        raise Unsupported('visitor overrides %s (not modelled)' % meth)
    return Err(DeError('invalid type: %s' % d.kind))


# ---- derived `Deserialize` of a unit-variant enum (C15): the derive's nested items are found in the MIR dump by name and signature


class ModelEnumAccess(Opaque):
    """the identifier of the variant as the deserializer holds it: ('str' | 'bytes' | 'u64', payload)"""
    def __init__(self, kind, payload):
        self.kind, self.payload = kind, payload


class ModelVariantAccess(Opaque):
    pass


Program.STD_ASSOC[('EnumAccess', 'Variant', 'ModelEnumAccess')] = ('adt', 'ModelVariantAccess', ())
Program.STD_ASSOC[('EnumAccess', 'Error', 'ModelEnumAccess')] = ('adt', 'DeError', ())
Program.STD_ASSOC[('Deserializer', 'Error', 'ModelDeserializer')] = ('adt', 'DeError', ())


def _nested_fn(I, suffix, first_param=None, ret=None):
    """the single MIR body whose name ends with `suffix` (and whose first parameter / return type mention the given text)"""
    c = [f for f in I.prog.fns if f.name.endswith(suffix) and (first_param is None or (f.params and first_param in f.params[0][1]))
         and (ret is None or ret in (f.ret or ''))]
    if len(c) != 1:
        raise Unsupported('%d MIR bodies match %s (%s, %s)' % (len(c), suffix, first_param, ret))
    return c[0]


def _derive_env(extra=None):
    from .interp import Env
    env = {'__D': ('adt', 'ModelDeserializer', ()), '__E': ('adt', 'DeError', ()), '__A': ('adt', 'ModelEnumAccess', ())}
    env.update(extra or {})
    return Env(env)


@model('Deserializer::deserialize_enum')
def m_de_enum(I, c, de, name, variants, visitor):
    d = deref_all(de)
    if d.kind not in ('enum_str', 'enum_bytes', 'enum_u64'):
        return Err(DeError('invalid type: %s, expected an enum' % d.kind))
    # the macro-generated identifier enum is not in the source: its variants are read off the MIR
    import re as _re
    if '__Field' not in I.prog.enums:
        idx = set()
        for f in I.prog.fns:
            if f.name.endswith('>::visit_u64') and f.params and '__FieldVisitor' in f.params[0][1]:
                for bl in f.blocks.values():
                    idx |= {int(x) for x in _re.findall(r'__field(\d+)', repr(bl))}
        I.prog.enums['__Field'] = ['__field%d' % i for i in range(max(idx) + 1)] if idx else []
    f = _nested_fn(I, '>::visit_enum', first_param='__Visitor')
    return I.call_fn(f, [visitor, ModelEnumAccess(d.kind[5:], d.payload)], _derive_env())


@model('EnumAccess::variant')
def m_enum_variant(I, c, acc):
    a = deref_all(acc)
    f = _nested_fn(I, '>::deserialize', ret='__Field')
    r = I.call_fn(f, [ModelDeserializer('ident_' + a.kind, a.payload)], _derive_env())
    if r.variant == 'Err':
        return r
    return Ok(Tup(r.fields[0], ModelVariantAccess()))


@model('Deserializer::deserialize_identifier')
def m_de_identifier(I, c, de, visitor):
    d = deref_all(de)
    if d.kind == 'ident_str':
        return I.call_fn(_nested_fn(I, '>::visit_str', first_param='__FieldVisitor'), [visitor, RStr(d.payload)], _derive_env())
    if d.kind == 'ident_bytes':
        return I.call_fn(_nested_fn(I, '>::visit_bytes', first_param='__FieldVisitor'), [visitor, VecVal(list(d.payload))], _derive_env())
    if d.kind == 'ident_u64':
        return I.call_fn(_nested_fn(I, '>::visit_u64', first_param='__FieldVisitor'), [visitor, d.payload], _derive_env())
    raise Unsupported('identifier of kind ' + d.kind)


@model('VariantAccess::unit_variant')
def m_unit_variant(I, c, v):
    return Ok(UNIT())


@model('Error::unknown_variant', 'Error::invalid_value', 'Error::unknown_variant@DeError', 'Error::invalid_value@DeError')
def m_de_error_other(I, c, *a):
    return DeError(c.method)


@model('Error::custom@DeError', 'Error::custom')
def m_de_error_custom(I, c, msg):
    f = Formatter()
    t = c.margs[0] if c.margs else None
    if t is not None:
        I.trait_call('Display', 'fmt', t, [Ref([msg], 0), Ref([f], 0)])
    return DeError(bytes(x for x in f.out if isinstance(x, int)).decode('utf8', 'replace'))


# =========================================================================================
# pattern-generic str methods (char | &str | &[char] | closure) and a few more containers


def _pat_matcher(I, pat):
    """-> ('char', f(byte_list, i) -> match length or 0) for the Pattern forms the engine supports"""
    p = deref_all(pat)
    if isinstance(p, int):
        _ascii_pat(p)
        return lambda b, i: 1 if beq(I, b[i], p) else 0
    if isinstance(p, VecVal):
        tab = sum(1 << _ascii_pat(q) for q in set(p.items))
        return lambda b, i: 1 if in_set(I, b[i], tab) else 0
    if isinstance(p, (RStr, StringBuf)):
        pb = list(sbytes(p))
        if not pb:
            raise Unsupported('empty string pattern')
        return lambda b, i: len(pb) if i + len(pb) <= len(b) and str_eq(I, b[i:i + len(pb)], pb) else 0
    if isinstance(p, (Closure, FnItem)) or callable(p):
        def f(b, i):
            ch, w = decode_char(I, b, i)
            return w if I.ctx.decide(I.call_value(p, [ch])) else 0
        return f
    raise Unsupported('pattern %r' % (p,))


def _split_generic(I, s, pat):
    b = sbytes(s)
    m = _pat_matcher(I, pat)
    out, cur, i = [], [], 0
    while i < len(b):
        k = m(b, i)
        if k:
            out.append(RStr(cur))
            cur = []
            i += k
        else:
            _, w = decode_char(I, b, i)
            cur.extend(b[i:i + w])
            i += w
    out.append(RStr(cur))
    return out


_old_split = MODELS['str::split']


@model('str::split')
def m_split_any(I, c, s, pat):
    if isinstance(deref_all(pat), int):
        return _old_split(I, c, s, pat)
    return ListIt(_split_generic(I, s, pat))


_old_contains = MODELS['str::contains']


@model('str::contains')
def m_contains_any(I, c, s, pat):
    p = deref_all(pat)
    if isinstance(p, (int, VecVal)):
        return _old_contains(I, c, s, pat)
    b = sbytes(s)
    m = _pat_matcher(I, pat)
    i = 0
    while i < len(b):
        if m(b, i):
            return True
        _, w = decode_char(I, b, i)
        i += w
    return False


_old_split_once = MODELS['str::split_once']
_old_rsplit_once = MODELS['str::rsplit_once']


@model('str::split_once')
def m_split_once_any(I, c, s, pat):
    if isinstance(deref_all(pat), int):
        return _old_split_once(I, c, s, pat)
    b = sbytes(s)
    m = _pat_matcher(I, pat)
    i = 0
    while i < len(b):
        k = m(b, i)
        if k:
            return Some(Tup(RStr(b[:i]), RStr(b[i + k:])))
        _, w = decode_char(I, b, i)
        i += w
    return NONE_()


@model('str::rsplit_once')
def m_rsplit_once_any(I, c, s, pat):
    if isinstance(deref_all(pat), int):
        return _old_rsplit_once(I, c, s, pat)
    b = sbytes(s)
    m = _pat_matcher(I, pat)
    starts, i = [], 0
    while i < len(b):
        starts.append(i)
        _, w = decode_char(I, b, i)
        i += w
    for i in reversed(starts):
        k = m(b, i)
        if k:
            return Some(Tup(RStr(b[:i]), RStr(b[i + k:])))
    return NONE_()


_old_trim_matches = MODELS['str::trim_matches']
_old_trim_start_matches = MODELS['str::trim_start_matches']


@model('str::trim_matches', 'str::trim_start_matches', 'str::trim_end_matches')
def m_trim_matches_any(I, c, s, pat):
    p = deref_all(pat)
    b = list(sbytes(s))
    if isinstance(p, int):
        _ascii_pat(p)
        if c.method != 'trim_end_matches':
            while b and beq(I, b[0], p):
                b.pop(0)
        if c.method != 'trim_start_matches':
            while b and beq(I, b[-1], p):
                b.pop()
        return RStr(b)
    if isinstance(p, VecVal):
        tab = sum(1 << _ascii_pat(q) for q in set(p.items))
        if c.method != 'trim_end_matches':
            while b and in_set(I, b[0], tab):
                b.pop(0)
        if c.method != 'trim_start_matches':
            while b and in_set(I, b[-1], tab):
                b.pop()
        return RStr(b)
    raise Unsupported('trim_matches with pattern %r' % (p,))


@model('str::matches', 'str::match_indices', 'str::rmatch_indices', 'str::rmatches')
def m_matches(I, c, s, pat):
    b = sbytes(s)
    m = _pat_matcher(I, pat)
    out, i = [], 0
    while i < len(b):
        k = m(b, i)
        if k:
            out.append(Tup(i, RStr(b[i:i + k])) if 'indices' in c.method else RStr(b[i:i + k]))
            i += k
        else:
            _, w = decode_char(I, b, i)
            i += w
    return ListIt(out[::-1] if c.method.startswith('r') else out)


def _chars_next_back(self, I):
    if self.i >= len(self.b):
        return STOP
    j = len(self.b) - 1
    while j > self.i and in_range(I, self.b[j], 0x80, 0xBF):
        j -= 1
    ch, w = decode_char(I, self.b, j)
    self.b = self.b[:j]
    return ch


CharsIt.next_back = _chars_next_back


class PeekIt(It):
    def __init__(self, inner):
        self.inner, self.buf = inner, None

    def next(self, I):
        if self.buf is not None:
            v, self.buf = self.buf, None
            return v[0]
        return self.inner.next(I)

    def peek(self, I):
        if self.buf is None:
            self.buf = (self.inner.next(I),)
        return self.buf[0]


@model('Iterator::peekable')
def m_peekable(I, c, it):
    return PeekIt(as_iter(I, it))


@model('Peekable::peek', 'Peekable::peek_mut')
def m_peek(I, c, r):
    it = deref_all(r)
    v = it.peek(I)
    if v is STOP:
        return NONE_()
    return Some(Ref([v], 0))


@model('Peekable::next_if')
def m_next_if(I, c, r, f):
    it = deref_all(r)
    v = it.peek(I)
    if v is STOP:
        return NONE_()
    if I.ctx.decide(I.call_value(f, [Ref([v], 0)])):
        it.buf = None
        return Some(v)
    return NONE_()


@model('Peekable::next_if_eq')
def m_next_if_eq(I, c, r, x):
    it = deref_all(r)
    v = it.peek(I)
    if v is STOP:
        return NONE_()
    if I.ctx.decide(zx(v) == zx(deref_all(x))):
        it.buf = None
        return Some(v)
    return NONE_()


@model('Cow::to_mut')
def m_cow_to_mut(I, c, r):
    cow = deref_all(r)
    if cow.variant == 'Borrowed':
        cow.variant = 'Owned'
        cow.fields[0] = StringBuf(sbytes(cow.fields[0]))
    return Ref(cow.fields, 0)


@model('Cow::is_borrowed')
def m_cow_is_borrowed(I, c, r):
    return deref_all(r).variant == 'Borrowed'


@model('Cow::is_owned')
def m_cow_is_owned(I, c, r):
    return deref_all(r).variant == 'Owned'


@model('slice::sort_unstable_by_key', 'slice::sort_by_key', 'slice::sort_by_cached_key')
def m_sort_by_key2(I, c, sl, f):
    v = vec_of(sl).items
    kt = c.margs[0] if c.margs else None
    if kt is None:
        raise Unsupported('sort_by_key without key type')
    keys = [I.call_value(f, [Ref(v, i)]) for i in range(len(v))]
    idx = list(range(len(v)))
    for i in range(1, len(idx)):
        j = i
        while j > 0 and I.trait_call('Ord', 'cmp', kt, [Ref(keys, idx[j - 1]), Ref(keys, idx[j])]).variant == 'Greater':
            idx[j - 1], idx[j] = idx[j], idx[j - 1]
            j -= 1
    v[:] = [v[i] for i in idx]
    return UNIT()


@model('slice::binary_search_by_key')
def m_bsearch_key2(I, c, sl, key, f):
    v = vec_of(sl).items
    kt = c.margs[0] if c.margs else None
    lo, hi = 0, len(v)
    while lo < hi:
        mid = lo + (hi - lo) // 2
        k = I.call_value(f, [Ref(v, mid)])
        o = I.trait_call('Ord', 'cmp', kt, [Ref([k], 0), key]).variant
        if o == 'Equal':
            return Ok(mid)
        if o == 'Less':
            lo = mid + 1
        else:
            hi = mid
    return Err(lo)


@model('slice::binary_search')
def m_bsearch_plain(I, c, sl, key):
    v = vec_of(sl).items
    et = elem_types(c.self_ty)
    lo, hi = 0, len(v)
    while lo < hi:
        mid = lo + (hi - lo) // 2
        o = I.trait_call('Ord', 'cmp', et, [Ref(v, mid), key]).variant
        if o == 'Equal':
            return Ok(mid)
        if o == 'Less':
            lo = mid + 1
        else:
            hi = mid
    return Err(lo)


@model('Vec::drain')
def m_vec_drain(I, c, r, rng_):
    v = vec_of(r)
    lo, hi = _range_of(rng_, len(v.items))
    out = v.items[lo:hi]
    del v.items[lo:hi]
    return ListIt(out)


@model('Vec::append')
def m_vec_append(I, c, r, other):
    v, o = vec_of(r), vec_of(other)
    v.items.extend(o.items)
    del o.items[:]
    return UNIT()


@model('Vec::split_off')
def m_vec_split_off(I, c, r, at):
    v = vec_of(r)
    out = VecVal(v.items[at:])
    del v.items[at:]
    return out


@model('Option::get_or_insert_with')
def m_get_or_insert_with(I, c, r, f):
    o = r.get()
    if o.variant == 'None':
        o = Some(I.call_value(f, []))
        r.set(o)
    return Ref(o.fields, 0)


@model('Option::insert', 'Option::replace')
def m_opt_insert(I, c, r, v):
    old = r.get()
    o = Some(v)
    r.set(o)
    return Ref(o.fields, 0) if c.method == 'insert' else old


@model('Range::contains', 'RangeInclusive::contains', 'RangeFrom::contains', 'RangeTo::contains', 'RangeToInclusive::contains')
def m_range_contains(I, c, r, x):
    rv = deref_all(r)
    v = deref_all(x)
    f = rv.fields
    if rv.ty == 'Range':
        lo, hi, incl = f[0], f[1], False
    elif rv.ty == 'RangeInclusive':
        lo, hi, incl = f[0], f[1], True
    elif rv.ty == 'RangeFrom':
        lo, hi, incl = f[0], None, True
    elif rv.ty == 'RangeTo':
        lo, hi, incl = None, f[0], False
    else:
        lo, hi, incl = None, f[0], True
    def ge(a, b):
        return a >= b if isinstance(a, int) and isinstance(b, int) else z3.UGE(a if not isinstance(a, int) else z3.BitVecVal(a, b.size()), b if not isinstance(b, int) else z3.BitVecVal(b, a.size()))
    def lt(a, b, incl_):
        if isinstance(a, int) and isinstance(b, int):
            return a <= b if incl_ else a < b
        A = a if not isinstance(a, int) else z3.BitVecVal(a, b.size())
        B = b if not isinstance(b, int) else z3.BitVecVal(b, a.size())
        return z3.ULE(A, B) if incl_ else z3.ULT(A, B)
    terms = []
    if lo is not None:
        terms.append(ge(v, lo))
    if hi is not None:
        terms.append(lt(v, hi, incl))
    return b_and(*terms)


@model('RangeInclusive::new')
def m_range_incl_new(I, c, a, b):
    return Adt('RangeInclusive', None, [a, b])



@model('Deserialize::deserialize@String')
def m_string_deserialize(I, c, de):
    """serde's impl Deserialize for String: its visitor accepts str / String and UTF-8 bytes, nothing else"""
    d = deref_all(de)
    if d.kind in ('str', 'borrowed_str', 'string'):
        return Ok(StringBuf(d.payload))
    if d.kind == 'bytes':
        if utf8_valid(I, list(d.payload)):
            return Ok(StringBuf(d.payload))
        return Err(DeError('invalid value: bytes'))
    return Err(DeError('invalid type: %s, expected a string' % d.kind))



@model('str::parse')
def m_str_parse(I, c, s):
    """str::parse::<F>() is F::from_str"""
    return I.trait_call('FromStr', 'from_str', c.margs[0], [RStr(sbytes(s))])
