"""MIR interpreter over the value domain of vals.py; forks through ctx.decide()."""
import re
import z3
from . import types as T
from .types import parse_type, parse_callee, subst_callee, subst, unify, head, show
from .mir import parse_mir, CrateInfo, Impl, IMPL_RE, parse_operand
from .vals import *

STD_ENUMS = {
    'Option': ['None', 'Some'], 'Result': ['Ok', 'Err'], 'ControlFlow': ['Continue', 'Break'],
    'Cow': ['Borrowed', 'Owned'], 'Ordering': ['Less', 'Equal', 'Greater'],
}
INT_BITS = {'u8': 8, 'u16': 16, 'u32': 32, 'u64': 64, 'usize': 64, 'i8': 8, 'i16': 16, 'i32': 32, 'i64': 64,
            'isize': 64, 'u128': 128, 'i128': 128, 'char': 32, 'bool': 1}

MODELS = {}


def model(*keys):
    def deco(f):
        for k in keys:
            if '$S' in k:
                for s in ('String', 'SmartString'):
                    MODELS[k.replace('$S', s)] = f
            else:
                MODELS[k] = f
        return f
    return deco


class Env(dict):
    _key = None

    @property
    def key(self):
        if self._key is None:
            self._key = tuple(sorted(self.items()))
        return self._key


EMPTY_ENV = Env()


class Program:
    """everything derived from one MIR dump (one feature set)"""

    def __init__(self, mir_text, srcdir, features):
        self.features = set(features)
        self.info = CrateInfo(srcdir, features)
        self.fns, self.allocs = parse_mir(mir_text)
        self.enums = dict(STD_ENUMS)
        self.enums.update(self.info.enums)
        self.by_name = {}
        self.closures = {}
        self.consts = {}
        self.impls = []           # Impl objects with .methods
        self.free = {}
        self.resolve_cache = {}
        self.const_cache = {}
        self.ctor_cache = {}
        self.macro_types = self._macro_invocations()
        self._index()

    # ---- indexing
    def _macro_invocations(self):
        out = []
        for p, txt in self.info.clean.items():
            for m in re.finditer(r'str_ref_qualifier!\((\w+),', txt):
                # the key literal is blanked in `clean`; read it from the raw source
                raw = self.info.src[p][m.start():]
                mm = re.match(r'str_ref_qualifier!\((\w+),\s*"([^"]*)"', raw)
                if mm and mm.group(1) != '$type_name':
                    out.append((mm.group(1), mm.group(2)))
        return out

    def _index(self):
        impl_by_key = {}
        for f in self.fns:
            self.by_name.setdefault(f.name, f)
            if '{closure#' in f.name and f.params:
                m = re.search(r'\{closure@([^}]*)\}', f.params[0][1])
                if m:
                    self.closures[m.group(1)] = f
                continue
            if f.kind in ('const', 'static'):
                self.consts.setdefault(f.name, f)
            if f.impl_span is None:
                if f.kind == 'fn':
                    self.free.setdefault(f.name.split('::')[-1], []).append(f)
                continue
            short = f.name[IMPL_RE.search(f.name).end():]
            if not short.startswith('::') or '::' in short[2:]:
                # e.g. ...::name::promoted[0] ; not a method
                if not short[2:].startswith(('{')):
                    pass
                if '::' in short[2:]:
                    continue
            mname = short[2:]
            f.short = mname
            imp0 = self.info.impl_from_span(f.impl_span)
            imp = self._specialise_impl(imp0, f)
            if imp is None:
                continue
            key = (f.impl_span, show(imp.trait) if imp.trait else None, show(imp.self_ty))
            if key in impl_by_key:
                imp = impl_by_key[key]
            else:
                impl_by_key[key] = imp
                self.impls.append(imp)
            if f.kind == 'const':
                imp.consts[mname] = f
            else:
                # rustc prints const fns twice (runtime and const-eval MIR); keep the first
                imp.methods.setdefault(mname, f)

    def _specialise_impl(self, imp, f):
        """derive(thiserror::Error) spans host several traits; macro impls are instantiated per type"""
        if getattr(imp, 'derive', None) == 'Error':
            mname = f.name.split('::')[-1]
            new = Impl()
            new.file, new.span, new.generics, new.self_ty, new.body = imp.file, imp.span, imp.generics, imp.self_ty, None
            new.method_generics = {}
            if mname == 'fmt':
                new.trait = ('adt', 'Display', ())
            elif mname == 'from':
                new.trait = ('adt', 'From', (self.info.expand_alias(parse_type(f.params[0][1])),))
            else:
                new.trait = ('adt', 'Error', ())
            return new
        if imp.macro:
            sig = ' '.join(t for _, t in f.params) + ' ' + f.ret
            name = None
            for tn, key in self.macro_types:
                if re.search(r'\b%s\b' % tn, sig):
                    name = tn
            if name is None and f.const_value is not None and f.const_value[0] == 'str':
                for tn, key in self.macro_types:
                    if key.encode() == f.const_value[1]:
                        name = tn
            if name is None:
                return None
            hdr = imp.header_text.replace('$type_name', name).replace('$crate::', '').replace('::std::ops::', '')
            hdr = re.sub(r'qualifiers::well_known::', '', hdr)
            new = Impl()
            new.file, new.span, new.generics, new.body = imp.file, imp.span, [g for g in imp.generics], None
            parts = re.split(r'\s+for\s+', hdr)
            if len(parts) == 2:
                new.trait = self.info.ptype(parts[0]); new.self_ty = self.info.ptype(parts[1])
            else:
                new.self_ty = self.info.ptype(hdr)
            new.method_generics = {}
            return new
        return imp

    # ---- type normalisation (associated types)
    STD_ASSOC = {
        ('FromStr', 'Err', 'String'): ('adt', 'Infallible', ()),
        ('FromStr', 'Err', 'SmartString'): ('adt', 'Infallible', ()),
        ('FromHex', 'Error', 'Vec'): ('adt', 'FromHexError', ()),
    }

    def normalize(self, t):
        k = t[0]
        if k == 'adt':
            if t[1] in self.info.aliases and not t[2]:
                return self.normalize(self.info.ptype(self.info.aliases[t[1]]))
            if not t[2]:
                return t
            return ('adt', t[1], tuple(self.normalize(a) if a[0] != 'const' else a for a in t[2]))
        if k == 'ref':
            return ('ref', t[1], self.normalize(t[2]))
        if k == 'tup':
            return ('tup', tuple(self.normalize(a) for a in t[1]))
        if k == 'slice':
            return ('slice', self.normalize(t[1]))
        if k == 'arr':
            return ('arr', self.normalize(t[1]), t[2])
        if k == 'proj':
            st = self.normalize(t[1])
            tr = self.normalize(t[2]) if t[2] else None
            if tr is not None:
                for imp in self.impls:
                    if imp.trait is None or imp.trait[1] != tr[1] or t[3] not in imp.assoc:
                        continue
                    env = {}
                    if unify(imp.self_ty, st, imp.generics, env) and all(
                            unify(a, b, imp.generics, env) for a, b in zip(imp.trait[2], tr[2])):
                        return self.normalize(subst(imp.assoc[t[3]], env))
                r = self.STD_ASSOC.get((tr[1], t[3], head(st)))
                if r is not None:
                    return r
            return ('proj', st, tr, t[3])
        return t

    # ---- callee resolution
    def resolve(self, text, env):
        key = (text, env.key)
        r = self.resolve_cache.get(key)
        if r is None:
            r = self._resolve(text, env)
            self.resolve_cache[key] = r
        return r

    def _method_env(self, imp, mname, c, env):
        names = imp.method_generics.get(mname, [])
        margs = [a for a in c.margs]
        for n, a in zip(names, margs):
            env[n] = a
        return Env(env)

    def find_impl(self, trait, self_ty, mname=None):
        """crate impl of `trait` (type or None) for self_ty -> (Impl, env) or None"""
        for imp in self.impls:
            if trait is None:
                if imp.trait is not None:
                    continue
            else:
                if imp.trait is None or imp.trait[1] != trait[1]:
                    continue
                itr = imp.trait
                if itr[1] in ('PartialEq', 'PartialOrd') and not itr[2]:
                    itr = ('adt', itr[1], (imp.self_ty,))
                if len(itr[2]) != len(trait[2]):
                    continue
            if mname is not None and mname not in imp.methods and mname not in imp.consts:
                continue
            env = {}
            if not unify(imp.self_ty, self_ty, imp.generics, env):
                continue
            if trait is not None and not all(unify(a, b, imp.generics, env) for a, b in zip(itr[2], trait[2])):
                continue
            return imp, env
        return None

    def _resolve(self, text, env):
        c0 = parse_callee(text)
        c = subst_callee(c0, env, self.normalize)
        return self.resolve_callee(c, text)

    def resolve_callee(self, c, text=''):
        if c.kind == 'trait':
            tr, st = c.trait, c.self_ty
            if tr[1] == 'Into' and c.method == 'into':
                # blanket impl<T, U: From<T>> Into<U> for T
                tr, st = ('adt', 'From', (st,)), tr[2][0]
                c = _mk_callee('trait', st, tr, 'from', ())
            if tr[1] == 'TryInto' and c.method == 'try_into':
                tr, st = ('adt', 'TryFrom', (st,)), tr[2][0]
                c = _mk_callee('trait', st, tr, 'try_from', ())
            if tr[1] == 'From' and c.method == 'from' and tr[2] and tr[2][0] == st:
                return ('model', MODELS['identity'], c)
            if tr[1] in ('PartialEq', 'PartialOrd') and not tr[2]:
                tr = ('adt', tr[1], (st,))
            r = self.find_impl(tr, st, c.method)
            if r is not None:
                imp, ienv = r
                return ('mir', imp.methods[c.method], self._method_env(imp, c.method, c, ienv))
            keys = ['%s::%s@%s' % (tr[1], c.method, head(st))]
            if st[0] == 'ref':
                keys.append('%s::%s@&' % (tr[1], c.method))
            keys.append('%s::%s' % (tr[1], c.method))
            for k in keys:
                if k in MODELS:
                    return ('model', MODELS[k], c)
            # a provided (default) method of one of the crate's own traits: `fn Trait::method` in the MIR, with Self = the implementing type
            prov = [f for f in self.fns if f.name == '%s::%s' % (tr[1], c.method) or f.name.endswith('::%s::%s' % (tr[1], c.method))]
            if len(prov) == 1 and self.find_impl(tr, st) is not None:
                env = dict(self.find_impl(tr, st)[1])
                env['Self'] = st
                return ('mir', prov[0], Env(env))
            raise Unsupported('no impl or model for %r (from %s)' % (c, text))
        if c.kind == 'inherent':
            st = c.self_ty
            for imp in self.impls:
                if imp.trait is not None or c.method not in imp.methods:
                    continue
                ienv = {}
                if imp.self_ty[0] == 'adt' and st[0] == 'adt' and imp.self_ty[1] == st[1]:
                    if st[2]:
                        if not unify(imp.self_ty, st, imp.generics, ienv):
                            continue
                    return ('mir', imp.methods[c.method], self._method_env(imp, c.method, c, ienv))
            k = '%s::%s' % (head(st), c.method)
            if k in MODELS:
                return ('model', MODELS[k], c)
            # enum variant / tuple struct constructors used as functions
            if st[0] == 'adt' and st[1] in self.enums and c.method in self.enums[st[1]]:
                return ('model', _mk_ctor(st[1], c.method), c)
            raise Unsupported('no inherent method or model for %r (from %s)' % (c, text))
        # free function
        cands = self.free.get(c.method, [])
        full = '::'.join(c.modpath + [c.method])
        best = [f for f in cands if f.name == full or full.endswith('::' + f.name) or f.name.endswith('::' + full)
                or f.name == c.method]
        if best:
            f = best[0]
            fenv = {}
            names = self.free_generics(f)
            for n, a in zip(names, c.margs):
                fenv[n] = a
            return ('mir', f, Env(fenv))
        k = 'fn:' + c.method
        if k in MODELS:
            return ('model', MODELS[k], c)
        if c.method in self.info.structs or c.method[:1].isupper():
            return ('model', _mk_ctor(c.method, None), c)
        raise Unsupported('no function or model for %r (from %s)' % (c, text))

    def free_generics(self, f):
        base = f.name.split('::')[-1]
        for p, txt in self.info.clean.items():
            m = re.search(r'^(?:pub(?:\([^)]*\))? )?(?:const )?fn %s\s*<([^>]*)>' % re.escape(base), txt, re.M)
            if m:
                from .mir import generic_names
                return generic_names(m.group(1))
        return []

    # ---- constants
    def find_const(self, text):
        t = text
        # references may carry the generic arguments of the enclosing fn (`f::<S>::{closure#0}::promoted[0]`); definitions do not
        while '::<' in t:
            a = t.index('::<')
            depth, b = 0, a + 2
            while True:
                ch = t[b]
                if ch == '<':
                    depth += 1
                elif ch == '>' and t[b - 1] != '-':
                    depth -= 1
                    if depth == 0:
                        break
                b += 1
            t = t[:a] + t[b + 1:]
        while True:
            f = self.consts.get(t)
            if f is not None:
                return f
            if '::' not in t:
                return None
            t = t.split('::', 1)[1]


def _mk_callee(kind, st, tr, method, margs):
    c = T.Callee()
    c.kind, c.self_ty, c.trait, c.method, c.margs, c.text, c.modpath = kind, st, tr, method, margs, '', []
    return c


def _mk_ctor(ty, variant):
    def ctor(I, c, *args):
        return Adt(ty, variant, list(args))
    return ctor


class Frame:
    __slots__ = ('fn', 'locs', 'env')


class Interp:
    def __init__(self, prog, ctx, step_budget=2_000_000):
        self.prog, self.ctx = prog, ctx
        self.steps = 0
        self.budget = step_budget
        self.depth = 0
        self.trace_fns = set()
        self.trace_models = set()
        self.log = []            # harness-visible event log (C14)

    # ------------------------------------------------------------------ places
    def place(self, fr, p):
        k = p[0]
        if k == 'local':
            return fr.locs, p[1]
        if k == 'tls':
            raise Unsupported('thread-local static %s (std\'s lazy storage is not interpreted; LocalKey::with is modelled)' % p[1])
        if k == 'field':
            c, key = self.place(fr, p[1])
            obj = c[key]
            try:
                return obj.fields, p[2]
            except AttributeError:
                raise Unsupported('field projection on %r' % (obj,))
        if k == 'deref':
            c, key = self.place(fr, p[1])
            r = c[key]
            if isinstance(r, Ref):
                return r.c, r.k
            # fat pointers / by-value handles are their own referent
            return c, key
        if k == 'downcast':
            return self.place(fr, p[1])
        if k == 'index':
            c, key = self.place(fr, p[1])
            obj = c[key]
            idx = fr.locs[p[2]]
            if not isinstance(idx, int):
                raise Unsupported('symbolic index')
            if isinstance(obj, (RStr, StringBuf)):
                # a byte of `str::as_bytes()` (read-only view)
                if idx >= len(obj.b):
                    raise Panic('index out of bounds')
                return list(obj.b), idx
            if idx >= len(obj.items):
                raise Panic('index out of bounds')
            return obj.items, idx
        if k == 'cindex':
            c, key = self.place(fr, p[1])
            return c[key].items, p[2]
        raise Unsupported('place %r' % (p,))

    def read(self, fr, p):
        if p[0] == 'local':
            return fr.locs[p[1]]
        c, k = self.place(fr, p)
        return c[k]

    def operand(self, fr, o):
        k = o[0]
        if k == 'move':
            return self.read(fr, o[1])
        if k == 'copy':
            v = self.read(fr, o[1])
            if isinstance(v, (Adt, StringBuf, VecVal, MapVal)):
                return clone_val(v)
            return v
        return self.const(fr, o[1])

    def const(self, fr, c):
        k = c[0]
        if k == 'int' or k == 'char' or k == 'bool':
            return c[1]
        if k == 'str' or k == 'bytes':
            return RStr(c[1])
        if k == 'unit':
            return UNIT()
        if k == 'zst':
            t = parse_type(c[1])
            if t[0] == 'closure':
                return Closure(t[1], [], fr.env)
            if t[0] == 'fn':
                return FnItem(t[1], fr.env)
            return Adt(head(t), None, [])
        if k == 'alloc':
            tgt = self.prog.allocs.get(c[1])
            if tgt and tgt[0] == 'static':
                return Ref(self.static_cell(tgt[1]), 0)
            raise Unsupported('alloc const ' + c[1])
        if k == 'path':
            return self.const_path(fr, c[1])
        raise Unsupported('const %r' % (c,))

    def static_cell(self, name):
        cc = self.prog.const_cache
        cell = cc.get(('static', name))
        if cell is None:
            f = self.prog.find_const(name)
            if f is None:
                raise Unsupported('static ' + name)
            cell = [self.call_fn(f, [], EMPTY_ENV)]
            cc[('static', name)] = cell
        return cell

    def const_path(self, fr, text):
        cc = self.prog.const_cache
        key = (text, fr.env.key)
        if key in cc:
            return cc[key]
        v = self._const_path(fr, text)
        # (values of harness-configured model types are not constants of the program: never cached)
        if isinstance(v, (int, bool, RStr, Ref, FnItem)) and 'Model' not in str(fr.env.key):
            cc[key] = v
        return v

    def _const_path(self, fr, text):
        if text.endswith(')') and not text.startswith('<'):
            from .mir import parse_rvalue
            return self.rvalue(fr, parse_rvalue(text))
        f = self.prog.find_const(text)
        if f is not None:
            if f.const_value is not None:
                return self.const(fr, f.const_value)
            return self.call_fn(f, [], fr.env)
        if text.startswith('<'):
            # associated const <Q as Trait>::NAME  or fn item <Q as Trait>::method
            c = subst_callee(parse_callee(text), fr.env, self.prog.normalize)
            if c.kind == 'trait':
                r = self.prog.find_impl(c.trait, c.self_ty)
                if r is not None and c.method in r[0].consts:
                    f = r[0].consts[c.method]
                    if f.const_value is not None:
                        return self.const(fr, f.const_value)
                    return self.call_fn(f, [], Env(r[1]))
                k = 'const:%s::%s@%s' % (c.trait[1], c.method, head(c.self_ty))
                if k in MODELS:
                    return MODELS[k](self, c)
            return FnItem(text, fr.env)
        k = 'const:' + text
        if k in MODELS:
            return MODELS[k](self, None)
        ty, variant = self._ctor_info(text)
        if ty is not None and variant is not None:
            return Adt(ty, variant, [])
        last = text.split('::')[-1]
        if re.fullmatch(r'[A-Z]\w*', last) and (last in self.prog.info.structs or text == last):
            return Adt(last, None, [])
        return FnItem(text, fr.env)

    # ------------------------------------------------------------------ rvalues
    INT_BITS = {'u8': 8, 'u16': 16, 'u32': 32, 'u64': 64, 'usize': 64, 'u128': 128}

    def not_typed(self, fr, r, ty):
        """`Not` whose operand is a concrete integer needs the width, taken from the destination local's declared type"""
        v = self.operand(fr, r[2])
        if isinstance(v, int) and not isinstance(v, bool) and ty in self.INT_BITS:
            return v ^ ((1 << self.INT_BITS[ty]) - 1)
        if isinstance(v, bool):
            return not v
        if isinstance(v, int):
            raise Unsupported('bitwise not on int of type %s' % ty)
        return z3.Not(v) if z3.is_bool(v) else ~v

    def rvalue(self, fr, r):
        k = r[0]
        if k == 'use':
            return self.operand(fr, r[1])
        if k == 'ref':
            p = r[2]
            if p[0] == 'deref':
                v = self.read(fr, p[1])
                if isinstance(v, Ref):
                    return Ref(v.c, v.k)
                return v      # reborrow of a fat pointer value (&str, closures by handle)
            c, key = self.place(fr, p)
            return Ref(c, key)
        if k == 'ctor':
            return self.ctor(fr, r[1], r[2])
        if k == 'aggregate':
            name = self.aggregate_name(r[1])
            return Adt(name, None, [self.operand(fr, a) for a in r[3]])
        if k == 'tuple':
            return Adt('tuple', None, [self.operand(fr, a) for a in r[1]])
        if k == 'array':
            return VecVal([self.operand(fr, a) for a in r[1]])
        if k == 'discr':
            return self.discriminant(self.read(fr, r[1]))
        if k == 'binop':
            return self.binop(r[1], self.operand(fr, r[2]), self.operand(fr, r[3]))
        if k == 'unop':
            v = self.operand(fr, r[2])
            if r[1] == 'Not':
                if isinstance(v, bool):
                    return not v
                if isinstance(v, int):
                    raise Unsupported('bitwise not on int')
                return z3.Not(v) if z3.is_bool(v) else ~v
            if r[1] == 'PtrMetadata':
                # the length of a slice / str behind a fat pointer
                d = v
                while isinstance(d, Ref):
                    d = d.get()
                if isinstance(d, (RStr, StringBuf)):
                    return len(d.b)
                if isinstance(d, VecVal):
                    return len(d.items)
                raise Unsupported('PtrMetadata of %r' % (d,))
            raise Unsupported('unop ' + r[1])
        if k == 'cast':
            return self.cast(self.operand(fr, r[1]), r[2], r[3])
        if k == 'closure':
            return Closure(r[1], [self.operand(fr, a) for a in r[2]], fr.env)
        if k == 'repeat':
            cnt = str(r[2])
            g = fr.env.get(cnt)             # a const generic parameter of the enclosing fn
            if g is not None and g[0] == 'const':
                cnt = str(g[1])
            n = int(cnt.split('_')[0]) if cnt.split('_')[0].isdigit() else None
            if n is None:
                raise Unsupported('repeat count ' + str(r[2]) + ' (env %r)' % (g,))
            v = self.operand(fr, r[1])
            return VecVal([clone_val(v) for _ in range(n)])
        if k == 'len':
            return len(self.read(fr, r[1]).items)
        if k == 'useplace':
            return self.read(fr, r[1])
        raise Unsupported('rvalue %r' % (r,))

    def aggregate_name(self, path):
        n = self.prog.ctor_cache.get(path)
        if n is None:
            n = head(parse_type(path))
            self.prog.ctor_cache[path] = n
        return n

    def ctor(self, fr, path, args):
        info = self.prog.ctor_cache.get(path)
        if info is None:
            info = self._ctor_info(path)
            self.prog.ctor_cache[path] = info
        ty, variant = info
        if args is None:
            if ty is None:
                # a bare path in rvalue position that is not a constructor: constant or fn item
                return self.const_path(fr, path)
            return Adt(ty, variant, [])
        return Adt(ty, variant, [self.operand(fr, a) for a in args])

    def _ctor_info(self, path):
        # split the last `::segment`
        depth = 0
        cut = -1
        for i in range(len(path) - 1, 0, -1):
            ch = path[i]
            if ch in '>)]':
                depth += 1
            elif ch in '<([':
                depth -= 1
            elif depth == 0 and path[i - 1:i + 1] == '::' :
                cut = i - 1
                break
        if cut > 0:
            last = path[cut + 2:]
            pre = path[:cut]
            if re.fullmatch(r'\w+', last):
                try:
                    pt = parse_type(pre)
                except ValueError:
                    pt = None
                if pt is not None and pt[0] == 'adt' and pt[1] in self.prog.enums and last in self.prog.enums[pt[1]]:
                    return (pt[1], last)
        try:
            t = parse_type(path)
        except ValueError:
            return (None, None)
        if t[0] == 'adt' and t[1][:1].isupper() and (t[1] in self.prog.info.structs or '::' not in path or True):
            if self.prog.find_const(path) is not None:
                return (None, None)
            return (t[1], None)
        return (None, None)

    def discriminant(self, v):
        if isinstance(v, Adt):
            if v.variant is None:
                return 0
            vs = self.prog.enums.get(v.ty)
            if vs is None:
                raise Unsupported('discriminant of unknown enum ' + v.ty)
            i = vs.index(v.variant)
            return i - 1 if v.ty == 'Ordering' else i
        raise Unsupported('discriminant of %r' % (v,))

    def cast(self, v, ty, kind):
        if kind in ('PointerCoercion', 'Transmute', 'PtrToPtr', ''):
            return v
        if kind == 'IntToInt':
            bits = INT_BITS.get(ty.strip())
            if bits is None:
                raise Unsupported('cast to ' + ty)
            if isinstance(v, bool):
                return int(v)
            if isinstance(v, int):
                return v & ((1 << bits) - 1) if not ty.startswith('i') else v
            if z3.is_bool(v):
                return z3.If(v, z3.BitVecVal(1, bits), z3.BitVecVal(0, bits))
            w = v.size()
            if w == bits:
                return v
            return z3.ZeroExt(bits - w, v) if bits > w else z3.Extract(bits - 1, 0, v)
        raise Unsupported('cast kind %s to %s' % (kind, ty))

    def binop(self, op, a, b):
        ca = isinstance(a, (int, bool))
        cb = isinstance(b, (int, bool))
        if op.endswith('WithOverflow'):
            if not (ca and cb):
                raise Unsupported('symbolic checked arithmetic')
            r = a + b if op[0] == 'A' else (a - b if op[0] == 'S' else a * b)
            return Adt('tuple', None, [r % 2 ** 64, not (0 <= r < 2 ** 64)])
        if ca and cb:
            if op == 'Eq': return a == b
            if op == 'Ne': return a != b
            if op == 'Lt': return a < b
            if op == 'Le': return a <= b
            if op == 'Gt': return a > b
            if op == 'Ge': return a >= b
            if op == 'Add': return a + b
            if op == 'Sub': return a - b
            if op == 'Mul': return a * b
            if op == 'Div':
                if b == 0: raise Panic('division by zero')
                return a // b
            if op == 'Rem':
                if b == 0: raise Panic('remainder by zero')
                return a % b
            if op == 'BitAnd': return a & b
            if op == 'BitOr': return a | b
            if op == 'BitXor': return a ^ b
            if op == 'Shl': return a << b
            if op == 'Shr': return a >> b
            if op == 'Cmp': return Ordering((a > b) - (a < b))
            raise Unsupported('binop ' + op)
        if isinstance(a, bool) or isinstance(b, bool) or (is_sym(a) and z3.is_bool(a)) or (is_sym(b) and z3.is_bool(b)):
            A = z3.BoolVal(a) if isinstance(a, bool) else a
            B = z3.BoolVal(b) if isinstance(b, bool) else b
            if op == 'Eq': return A == B
            if op == 'Ne': return A != B
            if op == 'BitAnd': return z3.And(A, B)
            if op == 'BitOr': return z3.Or(A, B)
            if op == 'BitXor': return z3.Xor(A, B)
            raise Unsupported('bool binop ' + op)
        if op == 'Eq': return a == b
        if op == 'Ne': return a != b
        if op == 'Lt': return z3.ULT(a, b)
        if op == 'Le': return z3.ULE(a, b)
        if op == 'Gt': return z3.UGT(a, b)
        if op == 'Ge': return z3.UGE(a, b)
        if op == 'BitAnd': return a & b
        if op == 'BitOr': return a | b
        if op == 'BitXor': return a ^ b
        if op == 'Add': return a + b
        if op == 'Sub': return a - b
        raise Unsupported('symbolic binop ' + op)

    # ------------------------------------------------------------------ execution
    def call(self, text, args, env=EMPTY_ENV):
        r = self.prog.resolve(text, env)
        if r[0] == 'mir':
            return self.call_fn(r[1], args, r[2])
        self.trace_models.add(r[1].__name__)
        return r[1](self, r[2], *args)

    def trait_call(self, trait, method, self_ty, args, targs=(), margs=()):
        key = ('T', trait, method, self_ty, tuple(targs), tuple(margs))
        r = self.prog.resolve_cache.get(key)
        if r is None:
            c = _mk_callee('trait', self_ty, ('adt', trait, tuple(targs)), method, tuple(margs))
            r = self.prog.resolve_callee(c, '<trait_call>')
            self.prog.resolve_cache[key] = r
        if r[0] == 'mir':
            return self.call_fn(r[1], args, r[2])
        self.trace_models.add(r[1].__name__)
        return r[1](self, r[2], *args)

    def call_value(self, f, args):
        """call a closure / fn item value with already unpacked arguments"""
        f = deref_all(f)
        if isinstance(f, Closure):
            body = self.prog.closures.get(f.span)
            if body is None:
                raise Unsupported('closure body ' + f.span)
            first = body.params[0][1]
            a0 = Ref([f], 0) if first.startswith('&') else f
            return self.call_fn(body, [a0] + list(args), f.env)
        if isinstance(f, FnItem):
            return self.call(f.text, list(args), f.env)
        if callable(f):
            return f(self, *args)
        raise Unsupported('call of %r' % (f,))

    def call_fn(self, f, args, env):
        self.trace_fns.add(f.name)
        fr = Frame()
        fr.fn, fr.env = f, env
        locs = [None] * f.nlocals
        for (p, _), a in zip(f.params, args):
            locs[p] = a
        fr.locs = locs
        self.depth += 1
        if self.depth > 200:
            raise Panic('recursion limit (non-termination?)', f.name)
        blocks = f.blocks
        bb = 0
        ctx = self.ctx
        try:
            while True:
                for st in blocks[bb]:
                    self.steps += 1
                    k = st[0]
                    if k == 'assign':
                        p = st[1]
                        if st[2][0] == 'unop' and st[2][1] == 'Not' and p[0] == 'local':
                            v = self.not_typed(fr, st[2], f.locals.get(p[1]))
                        else:
                            v = self.rvalue(fr, st[2])
                        if p[0] == 'local':
                            locs[p[1]] = v
                        else:
                            c, key = self.place(fr, p)
                            c[key] = v
                    elif k == 'call':
                        argv = [self.operand(fr, a) for a in st[3]]
                        cal = st[2]
                        if cal[0] == 'static':
                            res = self.call(cal[1], argv, env)
                        else:
                            res = self.call_value(self.operand(fr, cal[1]), argv)
                        if st[4] is None:
                            raise Panic('diverging call returned: ' + str(cal[1]), f.name)
                        p = st[1]
                        if p[0] == 'local':
                            locs[p[1]] = res
                        else:
                            c, key = self.place(fr, p)
                            c[key] = res
                        bb = st[4]
                        break
                    elif k == 'switch':
                        v = self.operand(fr, st[1])
                        nxt = None
                        if isinstance(v, bool):
                            v = int(v)
                        if isinstance(v, int):
                            for val, tb in st[2]:
                                if val == v:
                                    nxt = tb
                                    break
                            else:
                                nxt = st[3]
                        else:
                            for val, tb in st[2]:
                                cond = (v if val else z3.Not(v)) if z3.is_bool(v) else (v == val)
                                if ctx.decide(cond):
                                    nxt = tb
                                    break
                            else:
                                nxt = st[3]
                        if nxt is None:
                            raise Panic('switchInt without target', f.name)
                        bb = nxt
                        break
                    elif k == 'goto':
                        bb = st[1]
                        break
                    elif k == 'return':
                        return locs[0]
                    elif k == 'drop':
                        bb = st[2]
                        break
                    elif k == 'assert':
                        v = self.operand(fr, st[2])
                        if st[1]:
                            v = (not v) if isinstance(v, bool) else z3.Not(v)
                        if not ctx.decide(v):
                            raise Panic('assertion failed: ' + st[3], f.name)
                        bb = st[4]
                        break
                    elif k == 'unreachable':
                        raise Panic('entered unreachable code', f.name)
                    elif k == 'resume':
                        raise Panic('resume', f.name)
                    elif k == 'setdiscr':
                        raise Unsupported('SetDiscriminant')
                    else:
                        raise Unsupported('statement %r' % (st,))
                else:
                    raise Unsupported('fell off the end of bb%d in %s' % (bb, f.name))
                if self.steps > self.budget:
                    raise Panic('step budget exceeded (non-termination?)', f.name)
        finally:
            self.depth -= 1


def load_program(mir_path, srcdir, features):
    return Program(open(mir_path).read(), srcdir, features)
