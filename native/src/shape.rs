//! A parameterised family of user-written `PurlShape + FromStr` implementations (C14, C04): the behaviour of the
//! conversion and of the finishing hook is configured per request and every call is logged.
use std::borrow::Cow;
use std::cell::RefCell;
use std::str::FromStr;

use purl::{GenericPurl, GenericPurlBuilder, ParseError, PurlParts, PurlShape};
use serde_json::{json, Value};

use crate::{hx, parse_err_name, unhex};

#[derive(Clone, Debug, Default)]
struct Cfg {
    conv_ok: bool,
    type_string: Option<String>,
    hook: Vec<Vec<String>>,
}

thread_local! {
    static CFG: RefCell<Cfg> = RefCell::new(Cfg::default());
    static LOG: RefCell<Vec<Value>> = RefCell::new(Vec::new());
    static PRE: RefCell<Value> = RefCell::new(Value::Null);
}

#[derive(Clone, Debug)]
pub struct Shape {
    ty: String,
}

#[derive(Debug)]
pub enum ShapeErr {
    Conv,
    Hook,
    Parse(ParseError),
}

impl From<ParseError> for ShapeErr {
    fn from(e: ParseError) -> Self {
        ShapeErr::Parse(e)
    }
}

impl FromStr for Shape {
    type Err = ShapeErr;

    fn from_str(s: &str) -> Result<Self, ShapeErr> {
        LOG.with(|l| l.borrow_mut().push(json!(["conv", hx(s)])));
        if CFG.with(|c| c.borrow().conv_ok) {
            Ok(Shape { ty: s.to_owned() })
        } else {
            Err(ShapeErr::Conv)
        }
    }
}

impl PurlShape for Shape {
    type Error = ShapeErr;

    fn package_type(&self) -> Cow<str> {
        match CFG.with(|c| c.borrow().type_string.clone()) {
            Some(t) => Cow::Owned(t),
            None => Cow::Borrowed(&self.ty),
        }
    }

    fn finish(&mut self, parts: &mut PurlParts) -> Result<(), ShapeErr> {
        LOG.with(|l| l.borrow_mut().push(json!(["finish", hx(&parts.name)])));
        // what the hook is given, for the concrete re-evaluation of the property on a counterexample
        let quals: Vec<Value> = parts.qualifiers.iter().map(|(k, v)| json!([hx(k.as_str()), hx(v)])).collect();
        PRE.with(|p| {
            *p.borrow_mut() = json!({"ns": hx(&parts.namespace), "name": hx(&parts.name), "ver": hx(&parts.version),
                                     "sub": hx(&parts.subpath), "quals": quals})
        });
        let hook = CFG.with(|c| c.borrow().hook.clone());
        for e in hook {
            match e[0].as_str() {
                "fail" => return Err(ShapeErr::Hook),
                "name" => parts.name = e[1].as_str().into(),
                "ns" => parts.namespace = e[1].as_str().into(),
                "ver" => parts.version = e[1].as_str().into(),
                "sub" => parts.subpath = e[1].as_str().into(),
                "qual" => {
                    if parts.qualifiers.insert(e[1].as_str(), e[2].as_str()).is_err() {
                        return Err(ShapeErr::Hook);
                    }
                },
                _ => {},
            }
        }
        Ok(())
    }
}

/// Reference reading of a checksum value, written from the property text (not from the crate): entries `algorithm:hex` separated by
/// `,`, split at the last `:`; even number of hex digits; algorithms lower-cased char by char and distinct; canonical text = sorted by
/// algorithm, lower-case hex.  None = malformed.
fn checksum_reference(v: &str) -> Option<String> {
    let mut ents: Vec<(String, String)> = Vec::new();
    for e in v.split(',') {
        let (a, h) = e.rsplit_once(':')?;
        if h.len() % 2 != 0 || !h.chars().all(|c| c.is_ascii_hexdigit()) {
            return None;
        }
        let la: String = a.chars().flat_map(char::to_lowercase).collect();
        if ents.iter().any(|(x, _)| *x == la) {
            return None;
        }
        ents.push((la, h.to_ascii_lowercase()));
    }
    ents.sort();
    Some(ents.iter().map(|(a, h)| format!("{}:{}", a, h)).collect::<Vec<_>>().join(","))
}

fn err_name(e: &ShapeErr) -> String {
    match e {
        ShapeErr::Conv => "Conv".into(),
        ShapeErr::Hook => "Hook".into(),
        ShapeErr::Parse(p) => format!("Parse({})", parse_err_name(p)),
    }
}

fn observe(p: &GenericPurl<Shape>) -> Value {
    let quals: Vec<Value> = p.qualifiers().iter().map(|(k, v)| json!([hx(k.as_str()), hx(v)])).collect();
    let disp = std::panic::catch_unwind(std::panic::AssertUnwindSafe(|| p.to_string()));
    json!({
        "type": hx(&p.package_type().package_type()),
        "ns": p.namespace().map(hx),
        "name": hx(p.name()),
        "ver": p.version().map(hx),
        "quals": quals,
        "sub": p.subpath().map(hx),
        "disp": match &disp { Ok(s) => json!(hx(s)), Err(_) => Value::Null },
        "disp_panics": disp.is_err(),
    })
}

pub fn run(req: &Value) -> Value {
    let hook: Vec<Vec<String>> = req["hook"]
        .as_array()
        .map(|a| {
            a.iter()
                .map(|e| {
                    let e = e.as_array().unwrap();
                    let mut v = vec![e[0].as_str().unwrap().to_owned()];
                    v.extend(e[1..].iter().map(unhex));
                    v
                })
                .collect()
        })
        .unwrap_or_default();
    CFG.with(|c| {
        *c.borrow_mut() = Cfg {
            conv_ok: req["conv_ok"].as_bool().unwrap_or(true),
            type_string: if req["type_string"].is_null() { None } else { Some(unhex(&req["type_string"])) },
            hook,
        }
    });
    LOG.with(|l| l.borrow_mut().clear());
    PRE.with(|p| *p.borrow_mut() = Value::Null);
    let r: Result<GenericPurl<Shape>, ShapeErr> = if req["mode"] == "parse" {
        GenericPurl::<Shape>::from_str(&unhex(&req["s"]))
    } else {
        let mut b = GenericPurlBuilder::new(Shape { ty: unhex(&req["type"]) }, unhex(&req["name"]));
        for st in req["steps"].as_array().map(|v| v.as_slice()).unwrap_or(&[]) {
            let a = |i: usize| unhex(&st[i]);
            b = match st[0].as_str().unwrap() {
                "with_namespace" => b.with_namespace(a(1)),
                "with_version" => b.with_version(a(1)),
                "with_subpath" => b.with_subpath(a(1)),
                "with_qualifier" => match b.with_qualifier(a(1), a(2)) {
                    Ok(b) => b,
                    Err(e) => return json!({"err": format!("with_qualifier:{}", parse_err_name(&e)), "log": []}),
                },
                _ => b,
            };
        }
        b.build()
    };
    let log = LOG.with(|l| l.borrow().clone());
    let mut pre = PRE.with(|p| p.borrow().clone());
    // the checksum value the hook leaves behind (its last edit of that key, else what it was given), read by the reference above
    if !pre.is_null() {
        let mut ck: Option<String> = pre["quals"].as_array().and_then(|a| a.iter().find(|e| unhex(&e[0]) == "checksum").map(|e| unhex(&e[1])));
        let cfg = CFG.with(|c| c.borrow().clone());
        for e in &cfg.hook {
            if e[0] == "fail" {
                break;
            }
            if e[0] == "qual" && e[1].to_ascii_lowercase() == "checksum" {
                ck = Some(e[2].clone());
            }
        }
        pre["checksum_left"] = match &ck {
            Some(v) if !v.is_empty() => match checksum_reference(v) {
                Some(c) => json!({"canonical": hx(&c)}),
                None => json!({"malformed": true}),
            },
            _ => Value::Null,
        };
    }
    match r {
        Ok(p) => json!({"ok": observe(&p), "log": log, "pre": pre}),
        Err(e) => json!({"err": err_name(&e), "log": log, "pre": pre}),
    }
}
