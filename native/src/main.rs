//! Native oracle for /verif: evaluates concrete cases on the real compiled `purl` crate through its
//! public API and prints one JSON line per request.  Used to replay path witnesses and to confirm
//! solver counterexamples; it never decides a property.
use std::borrow::Cow;
use std::collections::hash_map::DefaultHasher;
use std::fmt::Debug;
use std::hash::{Hash, Hasher};
use std::io::{BufRead, Write};
use std::panic::{catch_unwind, AssertUnwindSafe};
use std::str::FromStr;

use purl::{GenericPurl, GenericPurlBuilder, ParseError, PurlShape};
use serde_json::{json, Value};

mod quals;
mod shape;
mod tables;

pub fn hx(s: &str) -> String {
    hex::encode(s.as_bytes())
}

pub fn unhex(v: &Value) -> String {
    let b = hex::decode(v.as_str().expect("hex string")).expect("hex");
    String::from_utf8(b).expect("oracle inputs are valid UTF-8")
}

pub fn parse_err_name(e: &ParseError) -> String {
    match e {
        ParseError::UnsupportedUrlScheme => "UnsupportedUrlScheme".into(),
        ParseError::MissingRequiredField(f) => format!("MissingRequiredField({:?})", f),
        ParseError::InvalidPackageType => "InvalidPackageType".into(),
        ParseError::InvalidQualifier => "InvalidQualifier".into(),
        ParseError::InvalidEscape => "InvalidEscape".into(),
        #[allow(unreachable_patterns)]
        other => format!("{:?}", other),
    }
}

/// The type parameters the oracle can instantiate.
pub trait Kind: PurlShape + Clone + Eq + Hash + Ord + Debug + Sized {
    fn make(s: &str) -> Result<Self, String>;
    fn err_name(e: &<Self as PurlShape>::Error) -> String;
    fn err_text(e: &<Self as PurlShape>::Error) -> String;
    fn parse(s: &str) -> Option<Result<GenericPurl<Self>, <Self as PurlShape>::Error>>;
}

macro_rules! string_kind {
    ($t:ty, $mk:expr, $parse:expr) => {
        impl Kind for $t {
            fn make(s: &str) -> Result<Self, String> {
                Ok($mk(s))
            }
            fn err_name(e: &ParseError) -> String {
                parse_err_name(e)
            }
            fn err_text(e: &ParseError) -> String {
                e.to_string()
            }
            fn parse(s: &str) -> Option<Result<GenericPurl<Self>, ParseError>> {
                $parse(s)
            }
        }
    };
}

string_kind!(String, |s: &str| s.to_owned(), |s: &str| Some(GenericPurl::<String>::from_str(s)));
#[cfg(feature = "ss")]
string_kind!(purl::SmallString, |s: &str| purl::SmallString::from(s), |s: &str| Some(
    GenericPurl::<purl::SmallString>::from_str(s)
));

/// Cow::Borrowed of a leaked string / Cow::Owned: two distinct oracle kinds sharing one Rust type.
#[derive(Clone, Debug, PartialEq, Eq, Hash, PartialOrd, Ord)]
pub struct CowB(Cow<'static, str>);
#[derive(Clone, Debug, PartialEq, Eq, Hash, PartialOrd, Ord)]
pub struct CowO(Cow<'static, str>);
macro_rules! cow_kind {
    ($t:ident, $mk:expr) => {
        impl PurlShape for $t {
            type Error = ParseError;
            fn package_type(&self) -> Cow<str> {
                self.0.package_type()
            }
            fn finish(&mut self, parts: &mut purl::PurlParts) -> Result<(), ParseError> {
                self.0.finish(parts)
            }
        }
        impl Kind for $t {
            fn make(s: &str) -> Result<Self, String> {
                Ok($t($mk(s)))
            }
            fn err_name(e: &ParseError) -> String {
                parse_err_name(e)
            }
            fn err_text(e: &ParseError) -> String {
                e.to_string()
            }
            fn parse(_s: &str) -> Option<Result<GenericPurl<Self>, ParseError>> {
                None
            }
        }
    };
}
cow_kind!(CowB, |s: &str| Cow::Borrowed(&*Box::leak(s.to_owned().into_boxed_str())));
cow_kind!(CowO, |s: &str| Cow::Owned(s.to_owned()));

#[cfg(feature = "pt")]
impl Kind for purl::PackageType {
    fn make(s: &str) -> Result<Self, String> {
        purl::PackageType::from_str(s).map_err(|_| "UnsupportedType".to_owned())
    }
    fn err_name(e: &purl::PackageError) -> String {
        match e {
            purl::PackageError::MissingRequiredField(f) => format!("MissingRequiredField({:?})", f),
            purl::PackageError::Parse(p) => format!("Parse({})", parse_err_name(p)),
            purl::PackageError::UnsupportedType => "UnsupportedType".into(),
            #[allow(unreachable_patterns)]
            other => format!("{:?}", other),
        }
    }
    fn err_text(e: &purl::PackageError) -> String {
        e.to_string()
    }
    fn parse(s: &str) -> Option<Result<GenericPurl<Self>, purl::PackageError>> {
        Some(purl::Purl::from_str(s))
    }
}

/// per-character Unicode lower-case mapping (the documented NuGet rule)
pub fn name_lower(s: &str) -> String {
    s.chars().flat_map(|c| c.to_lowercase()).collect()
}

/// the documented PyPI rule: lower-case, every maximal run of '-', '_', '.' becomes a single '-'
pub fn pypi_norm(s: &str) -> String {
    let mut out = String::new();
    let mut prev_sep = false;
    for c in s.chars() {
        if c == '-' || c == '_' || c == '.' {
            if !prev_sep {
                out.push('-');
            }
            prev_sep = true;
        } else {
            prev_sep = false;
            out.extend(c.to_lowercase());
        }
    }
    out
}

fn hash_of<H: Hash>(v: &H) -> u64 {
    let mut h = DefaultHasher::new();
    v.hash(&mut h);
    h.finish()
}

/// Everything observable about a PURL value, plus the derived round-trip / re-build facts.
pub fn observe<T: Kind>(p: &GenericPurl<T>) -> Value {
    let disp = p.to_string();
    let quals: Vec<Value> = p.qualifiers().iter().map(|(k, v)| json!([hx(k.as_str()), hx(v)])).collect();
    let quals_rev: Vec<Value> = p.qualifiers().iter().rev().map(|(k, v)| json!([hx(k.as_str()), hx(v)])).collect();
    let get_ok = p.qualifiers().iter().all(|(k, v)| p.qualifiers().get(k.as_str()) == Some(v));
    let rt = match T::parse(&disp) {
        None => Value::Null,
        Some(Ok(q)) => {
            // what the string form reads back as (C09: no character lost, merged into another field or reinterpreted)
            let back_quals: Vec<Value> = q.qualifiers().iter().map(|(k, v)| json!([hx(k.as_str()), hx(v)])).collect();
            json!({"ok": true, "eq": q == *p, "same": q.to_string() == disp,
                   "hash_eq": hash_of(&q) == hash_of(p), "cmp_eq": q.cmp(p) == std::cmp::Ordering::Equal,
                   "back": {"type": hx(&q.package_type().package_type()), "ns": q.namespace().map(hx), "name": hx(q.name()),
                            "ver": q.version().map(hx), "quals": back_quals, "sub": q.subpath().map(hx)}})
        },
        Some(Err(e)) => json!({"ok": false, "err": T::err_name(&e)}),
    };
    let rb = match p.clone().into_builder().build() {
        Ok(q) => json!({"ok": true, "eq": q == *p, "same": q.to_string() == disp}),
        Err(e) => json!({"ok": false, "err": T::err_name(&e)}),
    };
    // formatting under the flags a format string can set: none may panic (C06) -- a width is a minimum, never a reason to fail
    let mut fmt_panics: Vec<&str> = Vec::new();
    macro_rules! try_fmt {
        ($label:expr, $($arg:tt)*) => {
            if catch_unwind(AssertUnwindSafe(|| format!($($arg)*))).is_err() {
                fmt_panics.push($label);
            }
        };
    }
    try_fmt!("{:1}", "{:1}", p);
    try_fmt!("{:>80}", "{:>80}", p);
    try_fmt!("{:*^3}", "{:*^3}", p);
    try_fmt!("{:#}", "{:#}", p);
    try_fmt!("{:.3}", "{:.3}", p);
    try_fmt!("{:+}", "{:+}", p);
    json!({
        "fmt_panics": fmt_panics,
        "type": hx(&p.package_type().package_type()),
        "ns": p.namespace().map(hx),
        "name": hx(p.name()),
        "ver": p.version().map(hx),
        "quals": quals,
        "quals_rev": quals_rev,
        "get_ok": get_ok,
        "sub": p.subpath().map(hx),
        "disp": hx(&disp),
        "rt": rt,
        "rb": rb,
    })
}

pub fn result_json<T: Kind>(r: Result<GenericPurl<T>, <T as PurlShape>::Error>) -> Value {
    match r {
        Ok(p) => json!({ "ok": observe(&p) }),
        Err(e) => json!({"err": T::err_name(&e), "err_text": hx(&T::err_text(&e))}),
    }
}

fn op_parse<T: Kind>(req: &Value) -> Value {
    let s = unhex(&req["s"]);
    #[allow(unused_mut)]
    let mut v = match T::parse(&s) {
        Some(r) => result_json::<T>(r),
        None => json!({"unsupported": "parse for this kind"}),
    };
    #[cfg(feature = "pt")]
    if req["T"] == "Purl" {
        // the documented name rules applied (independently) to the name the type-agnostic parser reads
        if let Ok(g) = GenericPurl::<String>::from_str(&s) {
            v["expect_lower"] = json!(hx(&name_lower(g.name())));
            v["expect_pypi"] = json!(hx(&pypi_norm(g.name())));
        }
        if let Ok(p) = purl::Purl::from_str(&s) {
            let cn = p.combined_name().to_string();
            let b = purl::Purl::builder_with_combined_name(*p.package_type(), cn.as_str());
            v["combined_again"] = json!({"combined": hx(&cn), "ns": hx(&b.parts.namespace), "name": hx(&b.parts.name)});
            v["combined_again"]["built"] = match b.build() {
                Ok(q) => json!({"ns": q.namespace().map(hx), "name": hx(q.name())}),
                Err(e) => json!({"err": <purl::PackageType as Kind>::err_name(&e)}),
            };
        }
    }
    v
}

/// builder scripts: {"type": hex, "name": hex, "steps": [[op, args...], ...]}
fn op_build<T: Kind>(req: &Value) -> Value {
    let ty = match T::make(&unhex(&req["type"])) {
        Ok(t) => t,
        Err(e) => return json!({ "err": e }),
    };
    // entry point: the builder's own constructor (default), GenericPurl::builder, or GenericPurl::new (no steps)
    let via = req["via"].as_str().unwrap_or("ctor");
    if via == "new" {
        return result_json::<T>(GenericPurl::<T>::new(ty, unhex(&req["name"])));
    }
    let mut b: GenericPurlBuilder<T> = if via == "parsed_long" {
        // as "parsed", with every component longer than a small string's inline capacity
        match T::parse(&format!("pkg:{}/github.com/some-org/some-repo/n@1.0.0-beta.1+build.20240101?download_url=https://example.org/a.tgz%3Fsig%3D0123456789abcdef#src/main/java/com/example", unhex(&req["type"]))) {
            Some(Ok(p)) => p.into_builder(),
            _ => return json!({"unsupported": "base PURL does not parse"}),
        }
    } else if via == "parsed" {
        // edit-and-rebuild: `pkg:<type>/ns/n@1?a=1&c=3#s` parsed and turned back into a builder
        match T::parse(&format!("pkg:{}/ns/n@1?a=1&c=3#s", unhex(&req["type"]))) {
            Some(Ok(p)) => p.into_builder(),
            _ => return json!({"unsupported": "base PURL does not parse"}),
        }
    } else if via == "builder" { GenericPurl::<T>::builder(ty, unhex(&req["name"])) } else { GenericPurlBuilder::new(ty, unhex(&req["name"])) };
    for st in req["steps"].as_array().map(|v| v.as_slice()).unwrap_or(&[]) {
        let op = st[0].as_str().unwrap();
        let a = |i: usize| unhex(&st[i]);
        b = match op {
            "with_namespace" => b.with_namespace(a(1)),
            "without_namespace" => b.without_namespace(),
            "with_name" => b.with_name(a(1)),
            "with_version" => b.with_version(a(1)),
            "without_version" => b.without_version(),
            "with_subpath" => b.with_subpath(a(1)),
            "without_subpath" => b.without_subpath(),
            "with_package_type" => match T::make(&a(1)) {
                Ok(t) => b.with_package_type(t),
                Err(e) => return json!({ "err": e }),
            },
            "with_qualifier" => match b.with_qualifier(a(1), a(2)) {
                Ok(b) => b,
                Err(e) => return json!({"err": format!("with_qualifier:{}", parse_err_name(&e))}),
            },
            "without_qualifier" => b.without_qualifier(a(1)),
            "without_qualifiers" => b.without_qualifiers(),
            "truncate_namespace" => {
                let n: usize = a(1).parse().unwrap_or(0);
                b.parts.namespace.truncate(n);
                b
            },
            "truncate_version" => {
                let n: usize = a(1).parse().unwrap_or(0);
                b.parts.version.truncate(n);
                b
            },
            "truncate_subpath" => {
                let n: usize = a(1).parse().unwrap_or(0);
                b.parts.subpath.truncate(n);
                b
            },
            "truncate_qualifier" => {
                let n: usize = a(2).parse().unwrap_or(0);
                if let Some(v) = b.parts.qualifiers.get_mut(a(1)) {
                    v.truncate(n);
                }
                b
            },
            "set_namespace" => {
                b.parts.namespace = a(1).into();
                b
            },
            "set_name" => {
                b.parts.name = a(1).into();
                b
            },
            "set_version" => {
                b.parts.version = a(1).into();
                b
            },
            "set_subpath" => {
                b.parts.subpath = a(1).into();
                b
            },
            "checksum" => {
                // [["alg", "raw text"], ...] inserted in order with insert_raw
                let mut c = purl::qualifiers::well_known::Checksum::default();
                for e in st[1].as_array().unwrap() {
                    c.insert_raw(&unhex(&e[0]), unhex(&e[1]));
                }
                match b.try_with_typed_qualifier(Some(c)) {
                    Ok(b) => b,
                    Err(e) => return json!({"err": format!("try_with_typed_qualifier:{}", parse_err_name(&e))}),
                }
            },
            "typed_model" => {
                let v = a(2);
                match a(1).as_str() {
                    "K" => b.with_typed_qualifier(Some(quals::MqK(v))),
                    "k" => b.with_typed_qualifier(Some(quals::Mqk(v))),
                    "Ab" => b.with_typed_qualifier(Some(quals::MqAb(v))),
                    _ => b.with_typed_qualifier(Some(quals::MqBad(v))),
                }
            },
            "repository_url" => b.with_typed_qualifier(Some(purl::qualifiers::well_known::RepositoryUrl::from(
                &*Box::leak(a(1).into_boxed_str()),
            ))),
            "no_repository_url" => b.with_typed_qualifier::<purl::qualifiers::well_known::RepositoryUrl>(None),
            "no_checksum" => match b.try_with_typed_qualifier::<purl::qualifiers::well_known::Checksum>(None) {
                Ok(b) => b,
                Err(_) => unreachable!(),
            },
            other => return json!({"unsupported": format!("builder op {}", other)}),
        };
    }
    result_json::<T>(b.build())
}

/// two values of one kind: equality, hashing and ordering against the canonical strings
fn op_pair<T: Kind>(req: &Value) -> Value {
    fn make<T: Kind>(r: &Value) -> Result<GenericPurl<T>, String> {
        if r["op"] == "parse" {
            match T::parse(&unhex(&r["s"])) {
                Some(Ok(p)) => Ok(p),
                Some(Err(e)) => Err(T::err_name(&e)),
                None => Err("unsupported".into()),
            }
        } else {
            let ty = T::make(&unhex(&r["type"]))?;
            let mut b: GenericPurlBuilder<T> = if r["via"] == "parsed_long" {
                match T::parse(&format!("pkg:{}/github.com/some-org/some-repo/n@1.0.0-beta.1+build.20240101?download_url=https://example.org/a.tgz%3Fsig%3D0123456789abcdef#src/main/java/com/example", unhex(&r["type"]))) {
                    Some(Ok(p)) => p.into_builder(),
                    _ => return Err("base PURL does not parse".into()),
                }
            } else {
                GenericPurlBuilder::new(ty, unhex(&r["name"]))
            };
            for st in r["steps"].as_array().map(|v| v.as_slice()).unwrap_or(&[]) {
                let a = |i: usize| unhex(&st[i]);
                b = match st[0].as_str().unwrap() {
                    "truncate_version" => {
                        b.parts.version.truncate(a(1).parse().unwrap_or(0));
                        b
                    },
                    "truncate_namespace" => {
                        b.parts.namespace.truncate(a(1).parse().unwrap_or(0));
                        b
                    },
                    "truncate_subpath" => {
                        b.parts.subpath.truncate(a(1).parse().unwrap_or(0));
                        b
                    },
                    "truncate_qualifier" => {
                        let n: usize = a(2).parse().unwrap_or(0);
                        if let Some(v) = b.parts.qualifiers.get_mut(a(1)) {
                            v.truncate(n);
                        }
                        b
                    },
                    "with_namespace" => b.with_namespace(a(1)),
                    "with_version" => b.with_version(a(1)),
                    "with_subpath" => b.with_subpath(a(1)),
                    "with_name" => b.with_name(a(1)),
                    "with_qualifier" => b.with_qualifier(a(1), a(2)).map_err(|e| parse_err_name(&e))?,
                    other => return Err(format!("unsupported step {}", other)),
                };
            }
            b.build().map_err(|e| T::err_name(&e))
        }
    }
    let a = match make::<T>(&req["a"]) {
        Ok(p) => p,
        Err(e) => return json!({ "a_err": e }),
    };
    let b = match make::<T>(&req["b"]) {
        Ok(p) => p,
        Err(e) => return json!({ "b_err": e }),
    };
    let (da, db) = (a.to_string(), b.to_string());
    let mut out = json!({"eq": a == b, "disp_eq": da == db, "hash_eq": hash_of(&a) == hash_of(&b), "cmp_ab": a.cmp(&b) as i8,
           "cmp_ba": b.cmp(&a) as i8, "pcmp_ab": a.partial_cmp(&b).map(|o| o as i8), "disp_a": hx(&da), "disp_b": hx(&db)});
    // a third value: the comparisons transitivity speaks about
    if !req["c"].is_null() {
        match make::<T>(&req["c"]) {
            Ok(c) => {
                out["cmp_bc"] = json!(b.cmp(&c) as i8);
                out["cmp_ac"] = json!(a.cmp(&c) as i8);
                out["eq_bc"] = json!(b == c);
                out["eq_ac"] = json!(a == c);
            },
            Err(e) => out["c_err"] = json!(e),
        }
    }
    out
}

/// JSON round trip through serde_json: deserialise the JSON text `json` (hex), re-serialise the value
#[cfg(feature = "sd")]
fn serde_run<T: Kind>(req: &Value) -> Value
where
    GenericPurl<T>: for<'de> serde::Deserialize<'de> + serde::Serialize,
{
    if !req["value"].is_null() {
        // a value of the serde data model handed to Deserialize directly (kinds JSON cannot express, e.g. bytes)
        use serde::de::value::{BorrowedStrDeserializer, BytesDeserializer, Error as VErr, StrDeserializer, StringDeserializer};
        use serde::Deserialize;
        let payload = hex::decode(req["value"]["payload"].as_str().unwrap_or("")).unwrap();
        let text = String::from_utf8_lossy(&payload).to_string();
        let r: Result<GenericPurl<T>, VErr> = match req["value"]["kind"].as_str().unwrap_or("") {
            "bytes" => GenericPurl::<T>::deserialize(BytesDeserializer::<VErr>::new(&payload)),
            "str" => GenericPurl::<T>::deserialize(StrDeserializer::<VErr>::new(&text)),
            "borrowed_str" => GenericPurl::<T>::deserialize(BorrowedStrDeserializer::<VErr>::new(&text)),
            "string" => GenericPurl::<T>::deserialize(StringDeserializer::<VErr>::new(text.clone())),
            k => return json!({"unsupported": format!("value kind {}", k)}),
        };
        let direct_ok = matches!(T::parse(&text), Some(Ok(_)));
        if !req["in_place"].is_null() {
            // Deserialize::deserialize_in_place over an existing value (serde uses it when refreshing collections in place)
            let mut place = match T::parse(&unhex(&req["in_place"])) {
                Some(Ok(p)) => p,
                _ => return json!({"unsupported": "existing value does not parse"}),
            };
            let r2 = <GenericPurl<T> as Deserialize>::deserialize_in_place(StrDeserializer::<VErr>::new(&text), &mut place);
            return match r2 {
                Ok(()) => json!({"de": {"ok": observe(&place)}, "value_kind": "in_place", "from_str_ok": direct_ok,
                                 "same_as_from_str": match T::parse(&text) { Some(Ok(q)) => q == place, _ => false }}),
                Err(e) => json!({"de": {"err": e.to_string()}, "value_kind": "in_place", "from_str_ok": direct_ok}),
            };
        }
        return match r {
            Ok(p) => json!({"de": {"ok": observe(&p)}, "value_kind": req["value"]["kind"], "from_str_ok": direct_ok,
                            "same_as_from_str": match T::parse(&text) { Some(Ok(q)) => q == p, _ => false }}),
            Err(e) => json!({"de": {"err": e.to_string()}, "value_kind": req["value"]["kind"], "from_str_ok": direct_ok}),
        };
    }
    let js = unhex(&req["json"]);
    match serde_json::from_str::<GenericPurl<T>>(&js) {
        Ok(p) => {
            if req["after_failure"] == true {
                // a serialisation that fails on this thread first (a sink too small for the value), as C16 quantifies over any history
                let mut tiny = [0u8; 4];
                let _ = serde_json::to_writer(&mut tiny[..], &p);
            }
            let back = serde_json::to_string(&p).unwrap();
            let direct = T::parse(&match serde_json::from_str::<String>(&js) { Ok(s) => s, Err(_) => String::new() });
            let same = match direct { Some(Ok(q)) => q == p, _ => false };
            json!({"de": {"ok": observe(&p)}, "ser": hx(&back), "ser_is_display": back == serde_json::to_string(&p.to_string()).unwrap(), "same_as_from_str": same})
        },
        Err(e) => {
            let direct = match serde_json::from_str::<String>(&js) { Ok(s) => T::parse(&s), Err(_) => None };
            json!({"de": {"err": e.to_string()}, "from_str_ok": matches!(direct, Some(Ok(_))), "is_json_string": serde_json::from_str::<String>(&js).is_ok()})
        },
    }
}

#[cfg(feature = "sd")]
fn serde_op(req: &Value) -> Value {
    match req["T"].as_str().unwrap_or("String") {
        "String" => serde_run::<String>(req),
        #[cfg(feature = "pt")]
        "Purl" => serde_run::<purl::PackageType>(req),
        t => json!({"unsupported": format!("kind {}", t)}),
    }
}

fn pair_dispatch(req: &Value) -> Value {
    match req["T"].as_str().unwrap_or("String") {
        "String" => op_pair::<String>(req),
        #[cfg(feature = "ss")]
        "SmallString" => op_pair::<purl::SmallString>(req),
        "CowB" => op_pair::<CowB>(req),
        "CowO" => op_pair::<CowO>(req),
        #[cfg(feature = "pt")]
        "Purl" => op_pair::<purl::PackageType>(req),
        t => json!({"unsupported": format!("kind {}", t)}),
    }
}

fn dispatch_kind(req: &Value, f_parse: bool) -> Value {
    let t = req["T"].as_str().unwrap_or("String");
    macro_rules! go {
        ($ty:ty) => {
            if f_parse { op_parse::<$ty>(req) } else { op_build::<$ty>(req) }
        };
    }
    match t {
        "String" => go!(String),
        #[cfg(feature = "ss")]
        "SmallString" => go!(purl::SmallString),
        // without the smartstring feature the crate's small string *is* String (private alias)
        #[cfg(not(feature = "ss"))]
        "SmallString" => go!(String),
        "CowB" => go!(CowB),
        "CowO" => go!(CowO),
        #[cfg(feature = "pt")]
        "Purl" => go!(purl::PackageType),
        _ => json!({"unsupported": format!("kind {}", t)}),
    }
}

fn handle(req: &Value) -> Value {
    match req["op"].as_str().unwrap_or("") {
        "parse" => dispatch_kind(req, true),
        "build" => dispatch_kind(req, false),
        "tables" => tables::dump(),
        "multi" => {
            // several requests answered as one (product harnesses compare them)
            let rs: Vec<Value> = req["reqs"].as_array().unwrap().iter().map(|r| {
                match catch_unwind(AssertUnwindSafe(|| handle(r))) {
                    Ok(v) => v,
                    Err(_) => json!({"panic": "panic"}),
                }
            }).collect();
            json!({ "res": rs })
        },
        "pair" => pair_dispatch(req),
        "shape" => shape::run(req),
        #[cfg(feature = "sd")]
        "serde" => serde_op(req),
        #[cfg(feature = "pt")]
        "both" => {
            // the same string through the type-agnostic and the typed parser, plus the documented name rules
            // applied (independently) to the type-agnostic name
            let s = unhex(&req["s"]);
            let g = GenericPurl::<String>::from_str(&s);
            let (lower, pypi) = match &g {
                Ok(p) => (Some(hx(&name_lower(p.name()))), Some(hx(&pypi_norm(p.name())))),
                Err(_) => (None, None),
            };
            json!({"generic": result_json::<String>(g), "typed": result_json::<purl::PackageType>(purl::Purl::from_str(&s)),
                   "expect_lower": lower, "expect_pypi": pypi})
        },
        #[cfg(feature = "pt")]
        "build_typed" => {
            // the name that is current when build() runs: the constructor argument unless a later step replaces it
            let mut name = unhex(&req["name"]);
            for st in req["steps"].as_array().map(|v| v.as_slice()).unwrap_or(&[]) {
                if st[0] == "with_name" || st[0] == "set_name" {
                    name = unhex(&st[1]);
                }
            }
            let mut v = dispatch_kind(req, false);
            // combined name of the built value fed back through the constructor (C18, builder-made values)
            if let Ok(t) = purl::PackageType::from_str(&unhex(&req["type"])) {
                let mut b = purl::Purl::builder(t, unhex(&req["name"]));
                for st in req["steps"].as_array().map(|v| v.as_slice()).unwrap_or(&[]) {
                    if st[0] == "with_namespace" {
                        b = b.with_namespace(unhex(&st[1]));
                    } else if st[0] == "with_name" {
                        b = b.with_name(unhex(&st[1]));
                    }
                }
                if let Ok(p) = b.build() {
                    let cn = p.combined_name().to_string();
                    let b2 = purl::Purl::builder_with_combined_name(t, cn.as_str());
                    v["combined_again"] = json!({"combined": hx(&cn), "ns": hx(&b2.parts.namespace), "name": hx(&b2.parts.name)});
                    v["combined_again"]["built"] = match b2.build() {
                        Ok(q) => json!({"ns": q.namespace().map(hx), "name": hx(q.name())}),
                        Err(e) => json!({"err": <purl::PackageType as Kind>::err_name(&e)}),
                    };
                }
            }
            v["expect_lower"] = json!(hx(&name_lower(&name)));
            v["expect_pypi"] = json!(hx(&pypi_norm(&name)));
            v
        },
        "parse_after" => {
            let first = json!({"op": "parse", "T": req["T"], "s": req["first"]});
            let second = json!({"op": "parse", "T": req["T"], "s": req["s"]});
            let _ = catch_unwind(AssertUnwindSafe(|| dispatch_kind(&first, true)));
            let after = dispatch_kind(&second, true);
            // the same string parsed on a thread of its own
            let alone = std::thread::scope(|sc| sc.spawn(|| dispatch_kind(&second, true)).join()).unwrap_or(Value::Null);
            json!({"after": after, "alone": alone})
        },
        "quals" => quals::run(req),
        "keycmp" => quals::keycmp(req),
        "checksum" => quals::run_checksum(req),
        #[cfg(feature = "pt")]
        "combined" => quals::combined(req),
        #[cfg(feature = "pt")]
        "ptype" => quals::ptype(req),
        #[cfg(all(feature = "pt", feature = "sd"))]
        "ptype_de" => quals::ptype_de(req),
        other => json!({"unsupported": format!("op {}", other)}),
    }
}

fn main() {
    std::panic::set_hook(Box::new(|_| {}));
    let stdin = std::io::stdin();
    let stdout = std::io::stdout();
    let mut out = stdout.lock();
    for line in stdin.lock().lines() {
        let line = line.expect("stdin");
        if line.trim().is_empty() {
            continue;
        }
        let req: Value = match serde_json::from_str(&line) {
            Ok(v) => v,
            Err(e) => {
                writeln!(out, "{}", json!({"bad_request": e.to_string()})).unwrap();
                continue;
            },
        };
        let res = std::thread::scope(|sc| sc.spawn(|| catch_unwind(AssertUnwindSafe(|| handle(&req)))).join()).unwrap_or_else(Err);
        let v = match res {
            Ok(v) => v,
            Err(p) => {
                let msg = if let Some(s) = p.downcast_ref::<String>() {
                    s.clone()
                } else if let Some(s) = p.downcast_ref::<&str>() {
                    s.to_string()
                } else {
                    "panic".to_owned()
                };
                json!({ "panic": msg })
            },
        };
        writeln!(out, "{}", v).unwrap();
    }
}
