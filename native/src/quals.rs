//! Scripts over `Qualifiers`, `Checksum`, combined names and package type names.
use std::collections::hash_map::DefaultHasher;
use std::hash::{Hash, Hasher};

use purl::qualifiers::well_known::{Checksum, RepositoryUrl};
use purl::qualifiers::{Entry, Qualifiers};
use serde_json::{json, Value};

use crate::{hx, parse_err_name, unhex};

fn content(q: &Qualifiers) -> Value {
    let fwd: Vec<Value> = q.iter().map(|(k, v)| json!([hx(k.as_str()), hx(v)])).collect();
    let rev: Vec<Value> = q.iter().rev().map(|(k, v)| json!([hx(k.as_str()), hx(v)])).collect();
    // the other ways of walking the collection (adaptor methods an iterator type may override, iter_mut, IntoIterator):
    // every list below must equal `items` (or its reverse), every number `len`
    let mut q2 = q.clone();
    let n = q.len();
    let pair = |o: Option<(&purl::qualifiers::QualifierKey, &str)>| o.map(|(k, v)| json!([hx(k.as_str()), hx(v)])).unwrap_or(Value::Null);
    let nth: Vec<Value> = (0..n).map(|k| pair(q.iter().nth(k))).collect();
    let nth_back: Vec<Value> = (0..n).map(|k| pair(q.iter().nth_back(k))).collect();
    let mut mut_nth = Vec::new();
    let mut mut_nth_back = Vec::new();
    for k in 0..n {
        mut_nth.push(q2.iter_mut().nth(k).map(|(k, v)| json!([hx(k.as_str()), hx(v.as_str())])).unwrap_or(Value::Null));
        mut_nth_back.push(q2.iter_mut().nth_back(k).map(|(k, v)| json!([hx(k.as_str()), hx(v.as_str())])).unwrap_or(Value::Null));
    }
    let mut_fwd: Vec<Value> = q2.iter_mut().map(|(k, v)| json!([hx(k.as_str()), hx(v.as_str())])).collect();
    let mut_rev: Vec<Value> = (&mut q2).into_iter().rev().map(|(k, v)| json!([hx(k.as_str()), hx(v.as_str())])).collect();
    let into: Vec<Value> = q.into_iter().map(|(k, v)| json!([hx(k.as_str()), hx(v)])).collect();
    let beyond = q.iter().nth(n).is_none() && q.iter().nth_back(n).is_none() && q2.iter_mut().nth(n).is_none() && q2.iter_mut().nth_back(n).is_none();
    json!({"items": fwd, "rev": rev, "len": q.len(), "is_empty": q.is_empty(),
           "walks": {"nth": nth, "nth_back": nth_back, "mut_nth": mut_nth, "mut_nth_back": mut_nth_back, "mut_fwd": mut_fwd, "mut_rev": mut_rev, "into": into,
                     "count": q.iter().count(), "mut_count": q2.iter_mut().count(), "exact_len": q.iter().len(), "size_hint": q.iter().size_hint().0,
                     "last": pair(q.iter().last()), "beyond_is_none": beyond}})
}

fn pairs(v: &Value) -> Vec<(String, String)> {
    v.as_array().map(|a| a.iter().map(|e| (unhex(&e[0]), unhex(&e[1]))).collect()).unwrap_or_default()
}

fn h<T: Hash>(t: &T) -> u64 {
    let mut s = DefaultHasher::new();
    t.hash(&mut s);
    s.finish()
}

fn opt(v: Option<&str>) -> Value {
    match v {
        Some(s) => json!(hx(s)),
        None => Value::Null,
    }
}

/// User-written typed qualifiers (KnownQualifierKey + From<&str>, SmallString: From<Q>) with an upper-case, a lower-case, a mixed-case
/// and an invalid declared key.
macro_rules! model_qualifier {
    ($name:ident, $key:literal) => {
        pub struct $name(pub String);
        impl purl::qualifiers::well_known::KnownQualifierKey for $name {
            const KEY: &'static str = $key;
        }
        impl<'a> From<&'a str> for $name {
            fn from(s: &'a str) -> Self {
                $name(s.to_owned())
            }
        }
        impl From<$name> for SS {
            fn from(v: $name) -> Self {
                v.0.into()
            }
        }
    };
}
model_qualifier!(MqK, "K");
model_qualifier!(Mqk, "k");
model_qualifier!(MqAb, "Ab");
model_qualifier!(MqBad, "a b");

fn typed_op(q: &mut Qualifiers, op: &str, val: String) -> Option<Value> {
    macro_rules! go {
        ($ty:ident, $o:expr) => {
            Some(match $o {
                "insert" => {
                    q.insert_typed($ty(val));
                    Value::Null
                },
                "get" => q.get_typed::<$ty>().map(|v| json!(hx(&v.0))).unwrap_or(Value::Null),
                "contains" => json!(q.contains_typed::<$ty>()),
                _ => {
                    q.remove_typed::<$ty>();
                    Value::Null
                },
            })
        };
    }
    let (tag, o) = op.strip_prefix("typed")?.split_once('_')?;
    match tag {
        "K" => go!(MqK, o),
        "k" => go!(Mqk, o),
        "Ab" => go!(MqAb, o),
        "Bad" => go!(MqBad, o),
        _ => None,
    }
}

/// a stored key compared with an arbitrary string through QualifierKey's public PartialEq<S> / PartialOrd<S>
pub fn keycmp(req: &Value) -> Value {
    let key = unhex(&req["key"]);
    let other = unhex(&req["other"]);
    let q = match Qualifiers::try_from_iter([(key.as_str(), "v")]) {
        Ok(q) => q,
        Err(e) => return json!({"err": parse_err_name(&e)}),
    };
    let (k, _) = q.iter().next().unwrap();
    json!({"eq": *k == other.as_str(), "cmp": k.partial_cmp(other.as_str()).map(|o| o as i8)})
}

pub fn run(req: &Value) -> Value {
    let mut q = match Qualifiers::try_from_iter(pairs(&req["init"])) {
        Ok(q) => q,
        Err(e) => return json!({"init_err": parse_err_name(&e)}),
    };
    let mut rets = Vec::new();
    for st in req["steps"].as_array().map(|v| v.as_slice()).unwrap_or(&[]) {
        let op = st[0].as_str().unwrap();
        let a = |i: usize| unhex(&st[i]);
        let r: Value = match op {
            "insert" => match q.insert(a(1), a(2)) {
                Ok(v) => json!({"ok": hx(v)}),
                Err(e) => json!({"err": parse_err_name(&e)}),
            },
            "get" => opt(q.get(a(1))),
            "contains_key" => json!(q.contains_key(a(1))),
            "get_mut_set" => match q.get_mut(a(1)) {
                Some(v) => {
                    let old = v.to_string();
                    *v = a(2).into();
                    json!(hx(&old))
                },
                None => Value::Null,
            },
            "remove" => match q.remove(a(1)) {
                Some(v) => json!(hx(&v)),
                None => Value::Null,
            },
            "entry" => match q.entry(a(1)) {
                Ok(Entry::Occupied(o)) => json!({"occupied": hx(o.get())}),
                Ok(Entry::Vacant(_)) => json!("vacant"),
                Err(e) => json!({"err": parse_err_name(&e)}),
            },
            "entry_or_insert" => match q.entry(a(1)) {
                Ok(e) => json!({"ok": hx(e.or_insert(a(2)))}),
                Err(e) => json!({"err": parse_err_name(&e)}),
            },
            "entry_or_insert_with" => match q.entry(a(1)) {
                Ok(e) => {
                    let v = a(2);
                    json!({"ok": hx(e.or_insert_with(|| v))})
                },
                Err(e) => json!({"err": parse_err_name(&e)}),
            },
            "entry_and_modify" => match q.entry(a(1)) {
                Ok(e) => {
                    let suffix = a(2);
                    match e.and_modify(|v| v.push_str(&suffix)) {
                        Entry::Occupied(o) => json!({"occupied": hx(o.get())}),
                        Entry::Vacant(_) => json!("vacant"),
                    }
                },
                Err(e) => json!({"err": parse_err_name(&e)}),
            },
            "occ_insert" => match q.entry(a(1)) {
                Ok(Entry::Occupied(mut o)) => json!({"old": hx(&o.insert(a(2)))}),
                Ok(Entry::Vacant(_)) => json!("vacant"),
                Err(e) => json!({"err": parse_err_name(&e)}),
            },
            "occ_get_mut_set" => match q.entry(a(1)) {
                Ok(Entry::Occupied(mut o)) => {
                    let old = o.get().to_string();
                    *o.get_mut() = a(2).into();
                    json!({"old": hx(&old)})
                },
                Ok(Entry::Vacant(_)) => json!("vacant"),
                Err(e) => json!({"err": parse_err_name(&e)}),
            },
            "occ_into_mut_set" => match q.entry(a(1)) {
                Ok(Entry::Occupied(o)) => {
                    let v = o.into_mut();
                    let old = v.to_string();
                    *v = a(2).into();
                    json!({"old": hx(&old)})
                },
                Ok(Entry::Vacant(_)) => json!("vacant"),
                Err(e) => json!({"err": parse_err_name(&e)}),
            },
            "vac_insert" => match q.entry(a(1)) {
                Ok(Entry::Occupied(_)) => json!("occupied"),
                Ok(Entry::Vacant(v)) => json!({"ok": hx(v.insert(a(2)))}),
                Err(e) => json!({"err": parse_err_name(&e)}),
            },
            "occ_remove" => match q.entry(a(1)) {
                Ok(Entry::Occupied(o)) => json!({"old": hx(&o.remove())}),
                Ok(Entry::Vacant(_)) => json!("vacant"),
                Err(e) => json!({"err": parse_err_name(&e)}),
            },
            "occ_remove_entry" => match q.entry(a(1)) {
                Ok(Entry::Occupied(o)) => {
                    let (k, v) = o.remove_entry();
                    json!({"old": [hx(&k), hx(&v)]})
                },
                Ok(Entry::Vacant(_)) => json!("vacant"),
                Err(e) => json!({"err": parse_err_name(&e)}),
            },
            "retain_nonempty" => {
                q.retain(|_, v| !v.is_empty());
                Value::Null
            },
            "retain_key_ne" => {
                let k = a(1);
                q.retain(|qk, _| qk != &k);
                Value::Null
            },
            "retain_mut_append" => {
                let sfx = a(1);
                q.retain_mut(|_, v| {
                    v.push_str(&sfx);
                    true
                });
                Value::Null
            },
            "iter_mut_append" => {
                let sfx = a(1);
                for (_, v) in q.iter_mut() {
                    v.push_str(&sfx);
                }
                Value::Null
            },
            "clear" => {
                q.clear();
                Value::Null
            },
            "index" => json!(hx(&q[a(1)])),
            "index_set" => {
                let v = a(2);
                q[a(1)] = v.into();
                Value::Null
            },
            "reserve" => {
                q.reserve(st[1].as_u64().unwrap() as usize);
                json!(q.capacity() >= q.len())
            },
            "insert_repository_url" => {
                let v = a(1);
                q.insert_typed(RepositoryUrl::from(v.as_str()));
                Value::Null
            },
            "get_repository_url" => opt(q.get_typed::<RepositoryUrl>().as_deref()),
            "contains_repository_url" => json!(q.contains_typed::<RepositoryUrl>()),
            "remove_repository_url" => {
                q.remove_typed::<RepositoryUrl>();
                Value::Null
            },
            "compare" => match Qualifiers::try_from_iter(pairs(&st[1])) {
                Ok(o) => json!({"eq": q == o, "cmp": q.cmp(&o) as i8, "pcmp": q.partial_cmp(&o).map(|x| x as i8),
                                 "hash_eq": h(&q) == h(&o)}),
                Err(e) => json!({"err": parse_err_name(&e)}),
            },
            other => match typed_op(&mut q, other, if st.as_array().map_or(0, |v| v.len()) > 1 { a(1) } else { String::new() }) {
                Some(v) => v,
                None => json!({"unsupported": other}),
            },
        };
        rets.push(r);
    }
    json!({"rets": rets, "content": content(&q)})
}

#[cfg(feature = "ss")]
type SS = purl::SmallString;
#[cfg(not(feature = "ss"))]
type SS = String;

fn checksum_text(c: Checksum<'_>) -> Value {
    match SS::try_from(c) {
        Ok(s) => json!({"ok": hx(&s)}),
        Err(e) => json!({"err": parse_err_name(&e)}),
    }
}

pub fn run_checksum(req: &Value) -> Value {
    let text;
    let mut c = if req["from"].is_null() {
        Checksum::default()
    } else {
        text = unhex(&req["from"]);
        match Checksum::try_from(text.as_str()) {
            Ok(c) => c,
            Err(e) => return json!({"from_err": parse_err_name(&e)}),
        }
    };
    let mut rets = Vec::new();
    for st in req["steps"].as_array().map(|v| v.as_slice()).unwrap_or(&[]) {
        let op = st[0].as_str().unwrap();
        let a = |i: usize| unhex(&st[i]);
        let r: Value = match op {
            "insert_raw" => {
                c.insert_raw(&a(1), a(2));
                Value::Null
            },
            "insert" => {
                c.insert(&a(1), hex::decode(st[2].as_str().unwrap()).unwrap());
                Value::Null
            },
            "remove" => {
                c.remove(&a(1));
                Value::Null
            },
            "get_raw" => opt(c.get_raw(&a(1))),
            "get" => match c.get::<Vec<u8>>(&a(1)) {
                Ok(Some(v)) => json!({"ok": hex::encode(v)}),
                Ok(None) => Value::Null,
                Err(_) => json!("err"),
            },
            other => json!({"unsupported": other}),
        };
        rets.push(r);
    }
    let mut algs: Vec<String> = c.algorithms().map(hx).collect();
    algs.sort();
    let mut items: Vec<(String, String)> = c.iter().map(|(k, v)| (hx(k), hx(v.raw()))).collect();
    items.sort();
    // the text form parsed back, and every entry decoded: for the concrete re-evaluation of C12 on a counterexample
    let decoded: Vec<Value> = items
        .iter()
        .map(|(k, _)| match c.get::<Vec<u8>>(&unhex(&json!(k))) {
            Ok(Some(v)) => json!([k, hex::encode(v)]),
            Ok(None) => json!([k, Value::Null]),
            Err(_) => json!([k, "err"]),
        })
        .collect();
    let text = checksum_text(c);
    let back = match text.get("ok") {
        Some(t) => {
            let t = unhex(t);
            match Checksum::try_from(t.as_str()) {
                Ok(c2) => {
                    let mut it: Vec<(String, String)> = c2.iter().map(|(k, v)| (hx(k), hx(v.raw()))).collect();
                    it.sort();
                    json!({"ok": it})
                },
                Err(e) => json!({"err": parse_err_name(&e)}),
            }
        },
        None => Value::Null,
    };
    // the per-character lower-casing (char::to_lowercase of every character) of each step's algorithm, for the concrete reference
    let lowered: Vec<Value> = req["steps"].as_array().map(|v| v.as_slice()).unwrap_or(&[]).iter()
        .map(|st| json!(hx(&unhex(&st[1]).chars().flat_map(char::to_lowercase).collect::<String>()))).collect();
    json!({"rets": rets, "algorithms": algs, "items": items, "text": text, "back": back, "decoded": decoded, "lowered": lowered})
}

#[cfg(feature = "pt")]
pub fn combined(req: &Value) -> Value {
    use std::str::FromStr;
    let t = match purl::PackageType::from_str(&unhex(&req["type"])) {
        Ok(t) => t,
        Err(_) => return json!({"err": "UnsupportedType"}),
    };
    let b = purl::Purl::builder_with_combined_name(t, unhex(&req["s"]));
    let parts = json!({"ns": hx(&b.parts.namespace), "name": hx(&b.parts.name)});
    let built = match b.build() {
        Ok(p) => {
            let cn = p.combined_name().to_string();
            let b2 = purl::Purl::builder_with_combined_name(t, cn.as_str());
            json!({"ok": crate::observe(&p), "combined": hx(&cn),
                   "again": {"ns": hx(&b2.parts.namespace), "name": hx(&b2.parts.name)}})
        },
        Err(e) => json!({"err": <purl::PackageType as crate::Kind>::err_name(&e)}),
    };
    json!({"parts": parts, "built": built})
}

/// `PackageType` deserialised from a string value of the serde data model (the variant identifier as a str)
#[cfg(all(feature = "pt", feature = "sd"))]
pub fn ptype_de(req: &Value) -> Value {
    use serde::de::value::{Error as VErr, StrDeserializer};
    use serde::Deserialize;
    let s = unhex(&req["s"]);
    match purl::PackageType::deserialize(StrDeserializer::<VErr>::new(&s)) {
        Ok(t) => json!({"ok": {"name": hx(t.name())}}),
        Err(e) => json!({"err": e.to_string()}),
    }
}

#[cfg(feature = "pt")]
pub fn ptype(req: &Value) -> Value {
    use std::str::FromStr;
    use purl::PurlShape;
    match purl::PackageType::from_str(&unhex(&req["s"])) {
        Ok(t) => {
            let s: &'static str = t.into();
            #[cfg(feature = "sd")]
            let serde_name = serde_json::to_string(&t).ok().and_then(|j| serde_json::from_str::<String>(&j).ok()).map(|n| hx(&n));
            #[cfg(not(feature = "sd"))]
            let serde_name: Option<String> = None;
            json!({"ok": {"serde": serde_name, "name": hx(t.name()), "display": hx(&t.to_string()), "as_ref": hx(t.as_ref()),
                          "display_alt": hx(&format!("{:#}", t)), "display_plus": hx(&format!("{:+}", t)), "display_prec": hx(&format!("{:.9}", t)),
                          "into": hx(s), "package_type": hx(&t.package_type()), "debug": format!("{:?}", t)}})
        },
        Err(_) => json!({"err": "UnsupportedPackageType"}),
    }
}
