//! Unicode tables of the real std (and unicase) of the repository's toolchain, for the engine's
//! `char::is_uppercase` / `char::to_lowercase` / `UniCase` models.
use serde_json::{json, Map, Value};

pub fn dump() -> Value {
    let mut upper = Vec::new();
    let mut lower = Map::new();
    #[allow(unused_mut)]
    let mut fold = Map::new();
    for c in (0x80u32..0x110000).filter_map(char::from_u32) {
        if c.is_uppercase() {
            upper.push(c as u32);
        }
        let l: Vec<u32> = c.to_lowercase().map(|x| x as u32).collect();
        if l != [c as u32] {
            lower.insert((c as u32).to_string(), json!(l));
        }
    }
    #[cfg(feature = "pt")]
    {
        // unicase folding is not exposed; recover what matters: which non-ASCII scalar values are
        // UniCase-equal to some string of at most two ASCII letters (e.g. U+212A KELVIN SIGN == "k",
        // U+017F == "s", U+FB06 == "st").
        use unicase::UniCase;
        let mut cands: Vec<String> = Vec::new();
        for a in b'a'..=b'z' {
            cands.push((a as char).to_string());
            for b in b'a'..=b'z' {
                cands.push(format!("{}{}", a as char, b as char));
            }
        }
        for a in b'a'..=b'z' {
            for b in b'a'..=b'z' {
                for c in [b'i', b'l'] {
                    cands.push(format!("{}{}{}", a as char, b as char, c as char));
                }
            }
        }
        fn near_ascii(c: char, depth: u32) -> bool {
            c.to_lowercase().chain(c.to_uppercase()).any(|x| {
                x.is_ascii_alphabetic() || (depth > 0 && x != c && near_ascii(x, depth - 1))
            })
        }
        for c in (0x80u32..0x110000).filter_map(char::from_u32) {
            if !near_ascii(c, 2) {
                continue;
            }
            let s = c.to_string();
            let u = UniCase::unicode(s.as_str());
            for k in &cands {
                if u == UniCase::unicode(k.as_str()) {
                    fold.insert((c as u32).to_string(), json!(k.bytes().map(|x| x as u32).collect::<Vec<u32>>()));
                    break;
                }
            }
        }
    }
    // Cased / Case_Ignorable classes as seen by str::to_lowercase's final-sigma rule (the properties are private in std):
    // with S = U+03A3:  lower("A S c") ends in final sigma  and  lower("A S c B") does not  <=>  c is case-ignorable;
    //                   lower("A S c") does not end in final sigma                          <=>  c is cased and not ignorable.
    let mut ignorable = Vec::new();
    let mut cased = Vec::new();
    for c in (0u32..0x110000).filter_map(char::from_u32) {
        let t1: String = format!("A\u{3a3}{}", c).to_lowercase();
        let t2: String = format!("A\u{3a3}{}B", c).to_lowercase();
        let f1 = t1.chars().nth(1) == Some('\u{3c2}');
        let f2 = t2.chars().nth(1) == Some('\u{3c2}');
        if f1 && !f2 {
            ignorable.push(c as u32);
        } else if !f1 {
            cased.push(c as u32);
        }
    }
    // general character classes of the real std (compressed as inclusive ranges)
    fn class(f: impl Fn(char) -> bool) -> Vec<[u32; 2]> {
        let mut out: Vec<[u32; 2]> = Vec::new();
        for c in (0x80u32..0x110000).filter_map(char::from_u32) {
            if f(c) {
                match out.last_mut() {
                    Some(r) if r[1] + 1 == c as u32 => r[1] = c as u32,
                    _ => out.push([c as u32, c as u32]),
                }
            }
        }
        out
    }
    let classes = json!({"is_alphabetic": class(char::is_alphabetic), "is_numeric": class(char::is_numeric), "is_alphanumeric": class(char::is_alphanumeric),
                         "is_lowercase": class(char::is_lowercase), "is_whitespace": class(char::is_whitespace), "is_control": class(char::is_control)});
    json!({"classes": classes, "case_ignorable": ignorable, "cased_not_ignorable": cased, "uppercase": upper, "lowercase": Value::Object(lower), "unicase_fold": Value::Object(fold),
           "rustc": option_env!("RUSTC_VERSION").unwrap_or("")})
}
