#!/bin/sh
# tools/seed_verify.sh <worktree> <seed-id> : confirm a seeded change (suite passes, demo fails with / passes without), then store it
wt="$1"; id="$2"
cd "$wt" || exit 2
export CARGO_NET_OFFLINE=true
git checkout -q -- . ; git clean -fdq purl_test/tests 2>/dev/null
demo=$(ls deliver/demo_*.rs | head -1)
name=$(basename "$demo" .rs)
git apply --check deliver/patch.diff || { echo "PATCH DOES NOT APPLY"; exit 1; }
git apply deliver/patch.diff
suite=$(cargo test --workspace --offline 2>&1 | grep -E "^test result" | awk '{p+=$4; f+=$6} END {print p" passed "f" failed"}')
mkdir -p purl_test/tests && cp "$demo" purl_test/tests/$name.rs
with=$(cargo test --offline -p purl_test --test $name 2>&1 | grep -E "^test result" | head -1)
git checkout -q -- .
without=$(cargo test --offline -p purl_test --test $name 2>&1 | grep -E "^test result" | head -1)
rm -f purl_test/tests/$name.rs
echo "suite with patch: $suite"
echo "demo with patch:    $with"
echo "demo without patch: $without"
case "$suite" in *" 0 failed") ;; *) echo "REJECT: suite fails"; exit 1;; esac
case "$with" in *FAILED*) ;; *) echo "REJECT: demo does not fail with patch"; exit 1;; esac
case "$without" in *"ok."*) ;; *) echo "REJECT: demo does not pass without patch"; exit 1;; esac
mkdir -p /verif/seeded/$id && cp deliver/patch.diff "$demo" deliver/notes.md /verif/seeded/$id/
echo "KEPT $id"
