#!/usr/bin/env python3
"""Systematic single-edit mutants of purl/src (outside #[cfg(test)] modules), to look for blind spots of the checks.

usage: tools/mutate.py gen <outdir>        write <outdir>/NNN.diff + index.json
       tools/mutate.py run <outdir> [workers]   for every mutant: build + existing suite; if it survives the suite, run the
                                               checks mapped to the edited file on a scratch worktree (PURL_REPO); writes results.jsonl
Survivors (suite passes, every mapped check exits 0) are either equivalent mutants or blind spots; they are triaged by hand.
"""
import json
import os
import re
import subprocess
import sys

REPO = '/repo'
FILES = ['purl/src/parse.rs', 'purl/src/format.rs', 'purl/src/builder.rs', 'purl/src/lib.rs', 'purl/src/package_type.rs',
         'purl/src/qualifiers.rs', 'purl/src/qualifiers/well_known.rs']
CHECKS = {
    'purl/src/parse.rs': ['C02', 'C05', 'C07', 'C01'],
    'purl/src/format.rs': ['C03', 'C01', 'C09'],
    'purl/src/builder.rs': ['C09', 'C04', 'C14', 'C06'],
    'purl/src/lib.rs': ['C13', 'C08', 'C18', 'C10', 'C04'],
    'purl/src/package_type.rs': ['C08', 'C15', 'C05'],
    'purl/src/qualifiers.rs': ['C11', 'C06', 'C03'],
    'purl/src/qualifiers/well_known.rs': ['C12', 'C06', 'C05'],
}
RULES = [
    (r'\brsplit_once\b', 'split_once'), (r'(?<!r)\bsplit_once\b', 'rsplit_once'),
    (r'\btrim_matches\b', 'trim_start_matches'), (r'\btrim_start_matches\b', 'trim_matches'),
    (r'\.add\(b\'(.)\'\)', ''), (r' \|\| ', ' && '), (r' && ', ' || '), (r' == ', ' != '), (r' != ', ' == '),
    (r'\bis_empty\(\)', 'len() > 1'), (r'!(\w)', r'\1'), (r'\bif !', 'if '), (r'\.all\(', '.any('), (r'\.any\(', '.all('),
    (r'\bcontinue;', '{}'), (r" \+ 1\b", ' + 0'), (r" - 1\b", ' - 0'), (r'\bis_ascii_lowercase\b', 'is_ascii_alphabetic'),
    (r'\bis_ascii_alphanumeric\b', 'is_ascii_alphabetic'), (r'\bmake_ascii_lowercase\b', 'make_ascii_uppercase'),
    (r'\bto_ascii_lowercase\b', 'to_ascii_uppercase'), (r'\bis_ascii_hexdigit\b', 'is_ascii_alphanumeric'),
    (r"'#'", "'?'"), (r"'\?'", "'#'"), (r"'@'", "'#'"), (r"'/'", "':'"), (r"'&'", "';'"), (r"'='", "':'"), (r"'\.'", "'-'"), (r"','", "';'"), (r"':'", "'='"),
    (r'\bOk\(index\)', 'Err(index)'), (r'\bis_eq\(\)', 'is_le()'), (r'% 2 != 0', '% 2 != 1'), (r'\bsort_unstable_by\(\|a, b\| a\.0\.cmp\(&b\.0\)\)', 'sort_unstable_by(|a, b| b.0.cmp(&a.0))'),
    (r'\bMixedAscii\b;\n', 'MixedUnicode;\n'), (r'\.flat_map\(\|c\| c\.to_lowercase\(\)\)', '.map(|c| c.to_ascii_lowercase())'),
    (r'\bretain\(\|_, v\| !v\.is_empty\(\)\)', 'retain(|_, v| true || v.is_empty())'),
]


def test_start(src):
    m = re.search(r'#\[cfg\(test\)\]\s*mod tests', src)
    return m.start() if m else len(src)


def gen(out):
    os.makedirs(out, exist_ok=True)
    idx, n = [], 0
    for f in FILES:
        src = open(os.path.join(REPO, f)).read()
        end = test_start(src)
        for pat, rep in RULES:
            for m in re.finditer(pat, src[:end]):
                ln = src.count('\n', 0, m.start()) + 1
                line = src.split('\n')[ln - 1]
                if line.strip().startswith('//') or '#[' in line or 'debug_assert' in line:
                    continue
                new = src[:m.start()] + m.expand(rep) + src[m.end():]
                if new == src:
                    continue
                tmp = '/tmp/_mut_src.rs'
                open(tmp, 'w').write(new)
                d = subprocess.run(['diff', '-u', '--label', 'a/' + f, '--label', 'b/' + f, os.path.join(REPO, f), tmp], stdout=subprocess.PIPE).stdout.decode()
                n += 1
                open(os.path.join(out, '%03d.diff' % n), 'w').write(d)
                idx.append({'id': n, 'file': f, 'line': ln, 'rule': pat + ' -> ' + rep, 'text': line.strip()[:120]})
    json.dump(idx, open(os.path.join(out, 'index.json'), 'w'), indent=1)
    print('%d mutants' % n)


def run(out, workers):
    idx = json.load(open(os.path.join(out, 'index.json')))
    done = set()
    res_path = os.path.join(out, 'results.jsonl')
    if os.path.exists(res_path):
        done = {json.loads(l)['id'] for l in open(res_path)}
    env = dict(os.environ, CARGO_NET_OFFLINE='true', VERIF_WORKERS=str(workers))
    for m in idx:
        if m['id'] in done:
            continue
        wt = '/tmp/mutwt'
        subprocess.run(['git', '-C', REPO, 'worktree', 'remove', '--force', wt], stderr=subprocess.DEVNULL)
        subprocess.run(['git', '-C', REPO, 'worktree', 'add', '-q', '--detach', wt, 'HEAD'], check=True)
        r = {'id': m['id'], 'file': m['file'], 'line': m['line'], 'rule': m['rule'], 'text': m['text']}
        if subprocess.run(['git', '-C', wt, 'apply', os.path.join(out, '%03d.diff' % m['id'])]).returncode != 0:
            r['status'] = 'patch-failed'
        else:
            t = subprocess.run(['cargo', 'test', '--workspace', '--offline', '--target-dir', '/tmp/muttarget'], cwd=wt, env=env, stdout=subprocess.PIPE, stderr=subprocess.STDOUT)
            outp = t.stdout.decode()
            if t.returncode != 0:
                r['status'] = 'does-not-compile' if 'error[' in outp or 'error:' in outp and 'test result' not in outp else 'killed-by-suite'
            else:
                r['status'] = 'survives-suite'
                r['checks'] = {}
                for c in CHECKS[m['file']]:
                    e2 = dict(env, PURL_REPO=wt, VERIF_BUILD='/tmp/mutbuild')
                    p = subprocess.run(['./check', c, '--no-evidence'], cwd='/verif', env=e2, stdout=subprocess.PIPE, stderr=subprocess.STDOUT)
                    r['checks'][c] = p.returncode
                    if p.returncode == 1:
                        r['first_violation'] = [l for l in p.stdout.decode().split('\n') if l.startswith('  ')][:1]
                        break
                    if p.returncode == 2:
                        r.setdefault('inconclusive', []).append([l for l in p.stdout.decode().split('\n') if l.startswith('INCONCLUSIVE')][:1])
                r['verdict'] = 'caught' if 1 in r['checks'].values() else ('undecided' if 2 in r['checks'].values() else 'SURVIVOR')
        open(res_path, 'a').write(json.dumps(r) + '\n')
        print(json.dumps(r)[:300], flush=True)
    subprocess.run(['git', '-C', REPO, 'worktree', 'remove', '--force', '/tmp/mutwt'], stderr=subprocess.DEVNULL)
    subprocess.run(['rm', '-rf', '/tmp/mutbuild', '/tmp/muttarget'])


if __name__ == '__main__':
    if sys.argv[1] == 'gen':
        gen(sys.argv[2])
    else:
        run(sys.argv[2], int(sys.argv[3]) if len(sys.argv) > 3 else 6)
