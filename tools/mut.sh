#!/bin/sh
# tools/mut.sh <patch> <check args...> : apply a patch to /repo, run a check, always restore /repo
patch="$1"; shift
git -C /repo apply "$patch" || { echo "patch does not apply"; exit 3; }
cd /verif && ./check "$@" --no-evidence
rc=$?
git -C /repo checkout -- .
echo "exit=$rc"
exit $rc
