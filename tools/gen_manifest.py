#!/usr/bin/env python3
"""Regenerate /verif/MANIFEST.json from the property modules that exist under props/."""
import importlib, json, os, sys
HERE = os.path.dirname(os.path.dirname(os.path.abspath(__file__)))
sys.path.insert(0, HERE)
ALL = ['C%02d' % i for i in range(1, 20)]
NA_REASON = {}
try:
    NA_REASON = json.load(open(os.path.join(HERE, 'tools', 'not_applicable.json')))
except FileNotFoundError:
    pass
checks, na = [], []
for pid in ALL:
    p = os.path.join(HERE, 'props', pid.lower() + '.py')
    if not os.path.exists(p) or pid in NA_REASON:
        na.append({'property_id': pid, 'reason': NA_REASON.get(pid, 'harness not built yet (solver-based checking of the MIR is the only technique used; see DESIGN.md §10)')})
        continue
    src = open(p).read()
    def const(name, default=''):
        import re
        m = re.search(r'^%s = (\(.*?\)|\'.*?\'|".*?")$' % name, src, re.M | re.S)
        return eval(m.group(1)) if m else default
    checks.append({
        'property_id': pid,
        'quick_cmd': './check %s --tier quick' % pid,
        'thorough_cmd': './check %s --tier thorough' % pid,
        'evidence_file': 'evidence/%s.json' % pid,
        'replay_cmd_template': './check replay {path}',
        'engine': 'mirsym',
        'level_claimed': {'category': 'model_checking', 'text': const('LEVEL_TEXT'), 'design_ref': 'DESIGN.md §6 ' + pid},
        'level_note': 'bounded: only the input shapes listed in the evidence file; trusted base = rustc MIR printer, the MIR interpreter, API-level models of std/percent-encoding/hex/phf/unicase/smartstring (validated on every run by replaying path witnesses against the compiled crate), z3',
        'technique': 'solver-based checking: symbolic execution of the crate\'s rustc MIR (regenerated from /repo), z3 decides branch feasibility and every leaf assertion; counterexamples replayed natively',
    })
m = {
    'version': 1,
    'setup_cmd': './check setup',
    'hooks': {'guard': 'purl_verif', 'enable': 'no source hooks: the MIR dump exposes private functions and native replay uses the public API',
              'baseline_off_cmd': 'cd /repo && cargo nextest run --workspace --no-fail-fast --test-threads 8 --offline || cargo test --workspace --no-fail-fast --offline',
              'source_commits': [], 'add_only': True},
    'engines': [{'name': 'mirsym', 'path': 'mirsym/', 'serves_properties': [c['property_id'] for c in checks],
                 'kind_free_text': 'forking symbolic interpreter for rustc MIR text with API-level std models; z3 (QF_BV) decides path feasibility and leaf obligations; native oracle (native/) replays witnesses and confirms counterexamples'}],
    'checks': checks,
    'not_applicable': na,
    'notes': 'Genuine defects repaired in /repo by "fix:" commits are listed in known_findings.json (status fixed).',
}
json.dump(m, open(os.path.join(HERE, 'MANIFEST.json'), 'w'), indent=1)
print('claimed:', [c['property_id'] for c in checks])
