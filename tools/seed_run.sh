#!/bin/sh
# tools/seed_run.sh <seed-id> <prop...> : run quick checks against a seeded change.
# Default: on a scratch worktree of /repo under /tmp (PURL_REPO), so that /repo itself is never touched and other runs are not disturbed.
# With SEED_IN_PLACE=1: apply to /repo (git -C /repo apply), run, and restore it straight afterwards (git -C /repo checkout -- .).
id="$1"; shift
# VERIF_HOME: run the checks of another copy of /verif (e.g. a snapshot, so that edits in /verif do not disturb a long run)
home="${VERIF_HOME:-/verif}"
cd "$home"
if [ -n "$SEED_IN_PLACE" ]; then
  git -C /repo apply /verif/seeded/$id/patch.diff || { echo "patch does not apply"; exit 3; }
else
  wt=/tmp/seedwt_$id
  git -C /repo worktree remove --force $wt 2>/dev/null
  git -C /repo worktree add -q --detach $wt HEAD || exit 3
  git -C $wt apply /verif/seeded/$id/patch.diff || { echo "patch does not apply"; git -C /repo worktree remove --force $wt; exit 3; }
  export PURL_REPO=$wt VERIF_BUILD=/tmp/seedbuild_$id
fi
for p in "$@"; do
  out=$(timeout 1500 ./check $p --no-evidence 2>&1)
  rc=$?
  echo "$id $p exit=$rc $(echo "$out" | grep -c '^VIOLATION') violation lines; $(echo "$out" | grep -E '^(VIOLATION|INCONCLUSIVE)' | head -2 | tr '\n' ' ' | cut -c1-300)"
  echo "$out" | grep -A1 '^VIOLATION' | head -4 | sed 's/^/      /'
done
if [ -n "$SEED_IN_PLACE" ]; then
  git -C /repo checkout -- .
  git -C /repo status --short
else
  git -C /repo worktree remove --force $wt
  rm -rf /tmp/seedbuild_$id
fi
