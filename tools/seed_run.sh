#!/bin/sh
# tools/seed_run.sh <seed-id> <prop...> : apply a seeded change to /repo, run the quick checks, restore /repo; prints one line per check
id="$1"; shift
cd /verif
git -C /repo apply /verif/seeded/$id/patch.diff || { echo "patch does not apply"; exit 3; }
for p in "$@"; do
  out=$(timeout 1500 ./check $p --no-evidence 2>&1)
  rc=$?
  echo "$id $p exit=$rc $(echo "$out" | grep -c '^VIOLATION') violation lines; $(echo "$out" | grep -E '^(VIOLATION|INCONCLUSIVE)' | head -2 | tr '\n' ' ' | cut -c1-300)"
  echo "$out" | grep -A1 '^VIOLATION' | head -4 | sed 's/^/      /'
done
git -C /repo checkout -- .
git -C /repo status --short
