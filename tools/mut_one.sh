#!/bin/sh
# tools/mut_one.sh <patch.diff> <check> [args...] : run one check against a patch on a scratch worktree of /repo (PURL_REPO); /repo itself is not touched
patch="$1"; shift
wt=/tmp/mutone_$$
git -C /repo worktree add -q --detach $wt HEAD || exit 3
git -C $wt apply "$patch" || { echo "patch does not apply"; git -C /repo worktree remove --force $wt; exit 3; }
cd "${VERIF_HOME:-/verif}" && PURL_REPO=$wt VERIF_BUILD=/tmp/mutone_build_$$ ./check "$@" --no-evidence
rc=$?
git -C /repo worktree remove --force $wt; rm -rf /tmp/mutone_build_$$
echo "exit=$rc"
exit $rc
